"""C17 - the legacy [general] section mirrors the authoritative sections."""
import configparser
import io

import C04
from productmd.treeinfo import TreeInfo

PROPERTY = "C17"


def general_mirrors(sym, shape, opts, focus, main_variant, float_timestamp, reload_main=None, first_main=None):
    try:
        ti, objs = C04.build(sym, shape, opts, focus)
        if float_timestamp is not None:
            ti.tree.build_timestamp = float_timestamp
        if reload_main is not None:
            # the tree that is written was itself read from a file - one that had been written for another main variant.  What
            # [general] says follows the request of *this* dump (none: the alphabetically first top-level variant), not the file's past
            f0 = io.StringIO()
            ti.dump(f0, main_variant=reload_main)
            f0.seek(0)
            ti = TreeInfo()
            ti.loads(f0.read())
            sym.cover("reloaded")
            objs = dict((u, ti.variants[u]) for u in objs)
        if first_main is not None:
            # the same object was written before, for another main variant: each dump follows its own request
            ti.dump(io.StringIO(), main_variant=first_main)
            sym.cover("dumped-before")
        f = io.StringIO()
        if main_variant is None:
            ti.dump(f)
        else:
            ti.dump(f, main_variant=main_variant)
    except (ValueError, TypeError):
        return
    f.seek(0)
    text = f.read()
    sym.cover("written")
    # an independent INI reader (no interpolation, case preserved)
    p = configparser.ConfigParser(interpolation=None)
    p.optionxform = str
    p.read_string(text)
    g = "general"
    sym.check("general-present", p.has_section(g))
    sym.check("family", p.get(g, "family") == ti.release.name)
    sym.check("family-equals-[release]name", p.get(g, "family") == p.get("release", "name"))
    sym.check("version", p.get(g, "version") == ti.release.version)
    sym.check("version-equals-[release]version", p.get(g, "version") == p.get("release", "version"))
    sym.check("name", p.get(g, "name") == ti.release.name + " " + ti.release.version)
    sym.check("arch", p.get(g, "arch") == opts["arch"])
    sym.check("arch-equals-[tree]arch", p.get(g, "arch") == p.get("tree", "arch"))
    want_platforms = ",".join(sorted(set(ti.tree.platforms) | set([opts["arch"]])))
    sym.check("platforms", p.get(g, "platforms") == want_platforms)
    sym.check("platforms-equals-[tree]platforms", p.get(g, "platforms") == p.get("tree", "platforms"))
    if float_timestamp is None:
        sym.check("timestamp", p.get(g, "timestamp") == str(ti.tree.build_timestamp))
        sym.check("timestamp-equals-[tree]", p.get(g, "timestamp") == p.get("tree", "build_timestamp"))
    else:
        sym.check("timestamp", p.get(g, "timestamp") == str(int(float_timestamp)))
    tops = sorted(u for i, u, par, t in C04.SHAPES[shape] if par is None)
    sym.check("variants", p.get(g, "variants") == ",".join(tops))
    chosen = main_variant if main_variant is not None else tops[0]
    sym.check("variant-is-requested-or-first", p.get(g, "variant") == chosen)
    v = objs[chosen]
    src = opts["arch"] == "src"
    pk = v.paths.packages
    if pk is None and src:
        pk = v.paths.source_packages
    repo = v.paths.repository
    if repo is None and src:
        repo = v.paths.source_repository
    if pk is None:
        sym.check("no-packagedir", sym.not_(p.has_option(g, "packagedir")))
    else:
        sym.check("packagedir", p.get(g, "packagedir") == pk)
    if repo is None:
        sym.check("no-repository", sym.not_(p.has_option(g, "repository")))
    else:
        sym.check("repository", p.get(g, "repository") == repo)


PATH_OPTIONS = [["packages", "repository"], ["source_packages", "source_repository"], ["repository"], [], ["packages", "source_repository"],
                ["source_packages", "repository"], ["source_repository"], ["source_packages"]]


def jobs(tier, seed):
    big = tier == "thorough"
    out = []
    for si, shape in enumerate(C04.SHAPES):
        tops = sorted(u for i, u, par, t in C04.SHAPES[shape] if par is None)
        kids = sorted(u for i, u, par, t in C04.SHAPES[shape] if par is not None)
        mvs = [None] + tops + kids          # the requested main variant may be a nested one (looked up by UID)
        n = 0
        for arch in ("x86_64", "src"):
            for pi, popt in enumerate(PATH_OPTIONS):
                for mv in (mvs if big else [mvs[(pi + si + seed) % len(mvs)]] + ([None] if pi % 4 == 0 and len(tops) > 1 else [])):
                    k = (seed + si * 5 + pi * 3 + n) % 12
                    n += 1
                    o = C04._opts(shape, k)
                    o["media"] = bool(o["media"])          # half numberings are refused (C04): they would leave the job without a written tree
                    o["arch"] = arch
                    if arch in o["images"] or not o["images"]:
                        pass
                    else:
                        o["images"] = {}
                    if (pi + si + seed) % 3 == 0:
                        o["owner_arch"] = "x86_64" if arch == "src" else "src"
                    for u in tops + kids:
                        o["paths"][u] = list(popt) if u in tops else list(PATH_OPTIONS[(pi + 1 + len(u)) % len(PATH_OPTIONS)])
                    out.append({"harness": "general_mirrors", "params": {"shape": shape, "opts": o, "focus": C04._focus(shape, o, k), "main_variant": mv,
                                                                       "float_timestamp": [None, None, 1400000000.75, None, -2.5][k % 5]}})
    # trees that were read from a file written for another main variant, then written again without a request (and with one)
    for si, shape in enumerate(("two-top", "dashed", "children")):
        tops = sorted(u for i, u, par, t in C04.SHAPES[shape] if par is None)
        kids = sorted(u for i, u, par, t in C04.SHAPES[shape] if par is not None)
        for ri, rm in enumerate(tops[::-1] + kids[:1]):
            for mv in ([None, tops[0]] if big else [None]):
                o = C04._opts(shape, (seed + si + ri) % 12)
                o["media"] = bool(o["media"])
                if o["arch"] not in o["images"]:
                    o["images"] = {}
                for u in tops + kids:
                    o["paths"][u] = list(PATH_OPTIONS[(si + len(u)) % 2])
                out.append({"harness": "general_mirrors", "params": {"shape": shape, "opts": o, "focus": [], "main_variant": mv, "float_timestamp": None, "reload_main": rm}})
    # one object written twice: first for one main variant, then without a request (or for another one)
    for si, shape in enumerate(("two-top", "optional-first", "children")):
        tops = sorted(u for i, u, par, t in C04.SHAPES[shape] if par is None)
        kids = sorted(u for i, u, par, t in C04.SHAPES[shape] if par is not None)
        for fi, fm in enumerate(tops[::-1] + kids[:1]):
            for mv in ([None, tops[0]] if big else [None]):
                o = C04._opts(shape, (seed + si + fi + 3) % 12)
                o["media"] = bool(o["media"])
                if o["arch"] not in o["images"]:
                    o["images"] = {}
                for u in tops + kids:
                    o["paths"][u] = list(PATH_OPTIONS[(si + len(u)) % 2])
                out.append({"harness": "general_mirrors", "params": {"shape": shape, "opts": o, "focus": [], "main_variant": mv, "float_timestamp": None, "first_main": fm}})
    # extra platforms that have no image table while other platforms have one ([general] platforms follows [tree], not the image tables)
    for si, shape in enumerate(("single", "two-top")):
        for arch in ("x86_64", "src"):
            o = C04._opts(shape, 0)
            o["media"] = bool(o["media"])
            o["arch"] = arch
            o["platforms"] = ["xen", "ppc64le"]
            o["images"] = {arch: ["boot.iso"]} if arch != "src" else {"xen": ["kernel"]}
            out.append({"harness": "general_mirrors", "params": {"shape": shape, "opts": o, "focus": C04._focus(shape, o, si), "main_variant": None, "float_timestamp": None}})
    return out


META = {
    "fp_lemma": True,
    "expected_covers": {"general_mirrors": ["written", "reloaded", "dumped-before"]},
    "assumptions": C04.META["assumptions"] + [
        "the written text is read by an independent configparser.ConfigParser(interpolation=None, optionxform=str) through the same INI stub",
        "in a third of the jobs the Variant objects were created for another TreeInfo (of the other kind: source vs binary) and then added to the tree that is written",
        "dump-twice jobs: the same object is first written for one main variant and then again without a request",
        "reload jobs: the tree is first written for one main variant (each top-level variant, a child), read into a fresh TreeInfo and written again without a request",
        "main variant: none (default = alphabetically first top-level variant), each top-level variant, or each nested variant by its UID; float timestamps from a pool, integer timestamps symbolic",
    ],
}
