"""engine self-test: generator functions are lazy (what the consumer does between two next() calls is visible to the rest of the body)"""
PROPERTY = "selftest"


class Box(object):
    def __init__(self):
        self.flag = False
        self.seen = []


def sections(box):
    yield "a"
    if box.flag:          # set by the consumer after it received "a"
        yield "b"
    box.seen.append("end")
    yield "c"


def t(sym, n):
    box = Box()
    x = sym.int("x", 0, 9)
    got = []
    for s in sections(box):
        got.append(s)
        if s == "a" and x > 3:
            box.flag = True
    sym.cover("go")
    sym.check("lazy", got == (["a", "b", "c"] if x > 3 else ["a", "c"]))
    g = sections(box)
    first = next(g)
    sym.check("suspended-after-first", first == "a" and box.seen == ["end"])


def jobs(tier, seed):
    return [{"harness": "t", "params": {"n": 0}}]


META = {"expected_covers": {"t": ["go"]}}
