"""C12 - manifest builders file each entry exactly where the arguments say."""
import json

from productmd.rpms import Rpms
from productmd.common import RPM_ARCHES
from productmd.modules import Modules
from productmd.extra_files import ExtraFiles, _relative_to

PROPERTY = "C12"

CATEGORIES = ["binary", "debug", "source"]

# (argument as given, canonical key or None when it must be refused, arch of the rpm itself)
NEVRAS = [
    ("glibc-0:2.18-11.fc20.x86_64", "glibc-0:2.18-11.fc20.x86_64", "x86_64"),
    ("glibc-common-0:2.18-11.fc20.x86_64.rpm", "glibc-common-0:2.18-11.fc20.x86_64", "x86_64"),
    ("Packages/g/gtk+3-devel-12:3.10.6-1.el7_2.noarch.rpm", "gtk+3-devel-12:3.10.6-1.el7_2.noarch", "noarch"),
    ("glibc-0:2.18-11.fc20.src.rpm", "glibc-0:2.18-11.fc20.src", "src"),
    ("kernel-3:4.1-1.nosrc", "kernel-3:4.1-1.nosrc", "nosrc"),
    ("glibc-2.18-11.fc20.x86_64", None, "x86_64"),          # missing epoch
    ("foo:bar", None, None),                                # unparsable
    ("", None, None),
]
SRPMS = [
    (None, None),
    ("glibc-0:2.18-11.fc20.src.rpm", "glibc-0:2.18-11.fc20.src"),
    ("dir/kernel-3:4.1-1.nosrc", "kernel-3:4.1-1.nosrc"),
    ("glibc-2.18-11.fc20.src", "BAD"),                      # missing epoch
]


def clone(x):
    if isinstance(x, dict):
        return dict((k, clone(v)) for k, v in x.items())
    if isinstance(x, list):
        return [clone(v) for v in x]
    return x


def prestate_rpms(rpms, k):
    if k == 3:
        # a manifest that was loaded from a file (or edited through its public mapping) holds a source-package key that add itself
        # would never write: no epoch
        rpms.rpms = {"Server": {"x86_64": {"glibc-2.18-11.fc20.src": {"glibc-0:2.18-11.fc20.x86_64": {"path": "p", "sigkey": None, "category": "binary"}}}}}
        return
    if k >= 1:
        rpms.add("Server", "x86_64", "glibc-0:2.18-11.fc20.x86_64", "Server/x86_64/os/g/glibc.rpm", "246110C1", "binary",
                 "glibc-0:2.18-11.fc20.src.rpm")
    if k >= 2:
        rpms.add("Server", "x86_64", "glibc-0:2.18-11.fc20.src.rpm", "Server/source/g/glibc.src.rpm", None, "source")


def rpms_step(sym, pre, nevra_i, srpm_i, variant, arch_kind):
    """one Rpms.add from a reachable state, every non-key argument symbolic, against the documented layout"""
    rpms = Rpms()
    prestate_rpms(rpms, pre)
    before = clone(rpms.rpms)
    nevra, canon, own_arch = NEVRAS[nevra_i]
    srpm, srpm_canon = SRPMS[srpm_i]
    if arch_kind == "symbolic":
        arch = sym.one_of("arch", ["x86_64", "noarch", "src", "nosrc", "bogus", ""])
    else:
        arch = arch_kind
    path = sym.str("path", 4, minlen=1)        # an empty path is not mentioned for RPMs: outside the claim
    sigkey = sym.str("sigkey", 4, alphabet=["0-9", "a-f", "A-F"]) if sym.fork("has_sigkey") else None
    category = sym.str("category", 6)
    try:
        rpms.add(variant, arch, nevra, path, sigkey, category, srpm)
        raised = None
    except (ValueError, TypeError) as e:
        raised = e
    sym.cover("called")
    # documented refusal conditions
    bad_arch = sym.or_(sym.not_(arch in RPM_ARCHES), arch in ["src", "nosrc"])
    bad_category = sym.not_(category in CATEGORIES)
    bad_path = path.startswith("/")
    is_source = category == "source"
    own_src = own_arch in ("src", "nosrc")
    bad_nevra = canon is None
    bad_srpm = sym.or_(sym.and_(is_source, srpm is not None), sym.and_(sym.not_(is_source), srpm is None), srpm_canon == "BAD")
    mismatch = sym.not_(sym.iff(is_source, own_src))
    refuse = sym.or_(bad_arch, bad_category, bad_path, bad_nevra, bad_srpm, mismatch)
    sym.check("refused-iff-documented", sym.iff(raised is not None, refuse))
    if raised is not None:
        sym.check("refusal-changes-nothing", rpms.rpms == before)
        return
    sym.cover("accepted")
    key = canon if srpm_canon is None else srpm_canon
    expected = before
    expected.setdefault(variant, {}).setdefault(arch, {}).setdefault(key, {})[canon] = {
        "sigkey": sigkey.lower() if sigkey is not None else None, "path": path, "category": category}
    sym.check("filed-exactly-there", rpms.rpms == expected)


def uid_parts(sym, n, nparts, with_dir):
    name = sym.str("name", n, minlen=1)
    sym.assume(sym.no_char(name, ":/\n"))
    stream = sym.str("stream", n, minlen=1)
    sym.assume(sym.no_char(stream, ":/\n"))
    parts = [name, stream]
    if nparts >= 3:
        version = sym.str("version", n, minlen=1)
        sym.assume(sym.no_char(version, ":/\n"))
        parts.append(version)
    if nparts >= 4:
        context = sym.str("context", n, minlen=1)
        sym.assume(sym.no_char(context, ":/\n"))
        parts.append(context)
    canonical = ":".join(parts)
    text = canonical
    if with_dir:
        d = sym.str("dir", n)
        sym.assume(sym.no_char(d, ":\n"))
        text = d + "/" + text
    return parts, canonical, text


def module_uid(sym, n, nparts, with_dir):
    """Modules._check_uid returns the canonical NAME:STREAM[:VERSION[:CONTEXT]] and its parts"""
    parts, canonical, text = uid_parts(sym, n, nparts, with_dir)
    m = Modules()
    uid, d = m._check_uid(text)
    sym.cover("parsed")
    sym.check("canonical-uid", uid == canonical)
    sym.check("name", d["module_name"] == parts[0])
    sym.check("stream", d["stream"] == parts[1])
    sym.check("version", d["version"] == (parts[2] if nparts >= 3 else ""))
    sym.check("context", d["context"] == (parts[3] if nparts >= 4 else ""))


def module_uid_history(sym, nparts):
    """a UID parsed a second time gives the parts of its own text, whatever was parsed before and whatever the caller did with
    the earlier result"""
    pa, canon_a, text_a = uid_parts(sym, 2, nparts, False)
    m = Modules()
    first = Modules.parse_uid(text_a)
    first["module_name"] = "edited"
    first["stream"] = "edited"
    uid, d = m._check_uid(text_a)
    sym.cover("parsed")
    sym.check("canonical-uid", uid == canon_a)
    sym.check("name", d["module_name"] == pa[0])
    sym.check("stream", d["stream"] == pa[1])
    d["version"] = "edited"
    again = Modules.parse_uid(text_a)
    sym.check("version-again", again["version"] == (pa[2] if nparts >= 3 else ""))


def module_uid_refused(sym, n):
    """anything without a stream, or not a string, is refused with ValueError"""
    text = sym.str("uid", n)
    sym.assume(sym.no_char(text, ":"))
    m = Modules()
    try:
        m._check_uid(text)
        raised = False
    except ValueError:
        raised = True
    sym.cover("called")
    sym.check("no-stream-refused", raised)


def module_uid_spec(sym, n):
    """a module UID is accepted exactly when it has two to four non-empty ':'-separated fields (NAME:STREAM[:VERSION[:CONTEXT]], a
    texts without a directory prefix); anything else - five fields included - is refused with ValueError and nothing is filed"""
    text = sym.str("uid", n, alphabet=["a", "b", "1", ":", "."])          # no '/': a directory prefix may itself contain colons (module_uid covers prefixes)
    colons = text.count(":")
    ok = sym.and_(colons >= 1, colons <= 3, sym.not_(text.startswith(":")), sym.not_(text.endswith(":")), sym.not_("::" in text))
    m = Modules()
    try:
        m.add("Server", "x86_64", text, "tag", "Server/x86_64/os/repodata/m.yaml", "binary", ["x-0:1-1.noarch"])
        raised = False
    except ValueError:
        raised = True
    sym.cover("called")
    sym.check("accepted-iff-two-to-four-fields", sym.iff(raised, sym.not_(ok)))
    if raised:
        sym.check("nothing-filed", m.modules == {})


UIDS = ["mod:stream", "ruby:2.5:20180123:c0ffee", "dir/perl:5.26:1", "nostream", "modules/ruby:2.5:20180123:c0ffee"]
UID_CANON = ["mod:stream", "ruby:2.5:20180123:c0ffee", "perl:5.26:1", None, "ruby:2.5:20180123:c0ffee"]


def modules_step(sym, pre, uid_i, variant, arch, rpms_kind):
    m = Modules()
    if pre >= 1:
        m.add("Server", "x86_64", "ruby:2.5:20180123:c0ffee", "tag-1", "Server/x86_64/os/repodata/m.yaml", "binary", ["ruby-0:2.5-1.x86_64"])
    if pre >= 2:
        m.add("Server", "x86_64", "ruby:2.5:20180123:c0ffee", "tag-1", "Server/source/repodata/m.yaml", "source", ["ruby-0:2.5-1.src"])
    before = clone(m.modules)
    koji_tag = sym.str("koji_tag", 4)
    mdpath = sym.str("modulemd_path", 4)
    category = sym.str("category", 6)
    r1 = sym.str("rpm1", 4)
    if rpms_kind == "list":
        rpms = [r1, "x-0:1-1.noarch"]
    elif rpms_kind == "tuple":
        rpms = (r1,)
    elif rpms_kind == "empty":
        rpms = []
    elif rpms_kind == "str":
        rpms = "abc"
    else:
        rpms = None
    try:
        m.add(variant, arch, UIDS[uid_i], koji_tag, mdpath, category, rpms)
        raised = None
    except (ValueError, TypeError) as e:
        raised = e
    sym.cover("called")
    canon = UID_CANON[uid_i]
    refuse = sym.or_(variant == "", sym.not_(arch in RPM_ARCHES), sym.not_(category in CATEGORIES), canon is None,
                     mdpath.startswith("/"), len(mdpath) == 0, len(koji_tag) == 0, rpms_kind in ("str", "none"))
    sym.check("refused-iff-documented", sym.iff(raised is not None, refuse))
    if raised is not None:
        sym.check("refusal-changes-nothing", m.modules == before)
        return
    sym.cover("accepted")
    expected = before
    parts = (canon.split(":") + ["", ""])[:4]
    ent = expected.setdefault(variant, {}).setdefault(arch, {}).setdefault(canon, {})
    ent["metadata"] = {"uid": canon, "name": parts[0], "stream": parts[1], "version": parts[2], "context": parts[3], "koji_tag": koji_tag}
    ent.setdefault("modulemd_path", {})[category] = mdpath
    ent.setdefault("rpms", []).extend(list(rpms))
    sym.check("filed-exactly-there", m.modules == expected)


def modules_shared_list(sym, third_cell):
    """the caller passes the same list object to several adds: every entry still only changes when it is addressed"""
    m = Modules()
    r1 = sym.str("r1", 3)
    r2 = sym.str("r2", 3)
    shared = [r1]
    uid = "ruby:2.5:20180123:c0ffee"
    cells = [("Server", "x86_64"), ("Client", "s390x")]
    m.add(cells[0][0], cells[0][1], uid, "tag", "a/m.yaml", "binary", shared)
    m.add(cells[1][0], cells[1][1], uid, "tag", "b/m.yaml", "binary", shared)
    v, a = cells[third_cell]
    m.add(v, a, uid, "tag", "c/m.yaml", "debug", [r2])
    sym.cover("called")
    other = cells[1 - third_cell]
    sym.check("addressed-entry-extended", m.modules[v][a][uid]["rpms"] == [r1, r2])
    sym.check("other-entry-untouched", m.modules[other[0]][other[1]][uid]["rpms"] == [r1])
    sym.check("callers-list-untouched", shared == [r1])


def extra_shared_dict(sym):
    """two extra files recorded with the caller's checksum dict: a later add does not change an earlier entry"""
    ef = ExtraFiles()
    cs = {"md5": sym.str("md5", 3)}
    ef.add("Server", "x86_64", "GPL", 1, cs)
    ef.add("Server", "x86_64", "EULA", 2, {"md5": "zz"})
    sym.cover("called")
    sym.check("first-entry-kept", ef.extra_files["Server"]["x86_64"][0] == {"file": "GPL", "size": 1, "checksums": cs})
    sym.check("second-entry", ef.extra_files["Server"]["x86_64"][1] == {"file": "EULA", "size": 2, "checksums": {"md5": "zz"}})


def extra_step(sym, pre, variant, arch, checksums_kind):
    ef = ExtraFiles()
    if pre >= 1:
        ef.add("Server", "x86_64", "Server/x86_64/os/GPL", 123, {"md5": "abcde"})
    if pre >= 2:
        ef.add("Server", "x86_64", "Server/x86_64/os/EULA", 5, {"md5": "ffff"})
    before = clone(ef.extra_files)
    path = sym.str("path", 4)
    size = sym.int("size")
    if checksums_kind == "dict":
        checksums = {"sha256": sym.str("sha256", 4), "md5": sym.str("md5", 4)}
    elif checksums_kind == "empty":
        checksums = {}
    elif checksums_kind == "list":
        checksums = ["sha256", "abc"]
    else:
        checksums = None
    try:
        ef.add(variant, arch, path, size, checksums)
        raised = None
    except (ValueError, TypeError) as e:
        raised = e
    sym.cover("called")
    refuse = sym.or_(variant == "", sym.not_(arch in RPM_ARCHES), len(path) == 0, path.startswith("/"),
                     checksums_kind in ("list", "none"))
    sym.check("refused-iff-documented", sym.iff(raised is not None, refuse))
    if raised is not None:
        sym.check("refusal-changes-nothing", ef.extra_files == before)
        return
    sym.cover("accepted")
    expected = before
    expected.setdefault(variant, {}).setdefault(arch, []).append({"file": path, "size": size, "checksums": checksums})
    sym.check("appended-exactly-there", ef.extra_files == expected)


def relative_inside(sym, n, slashes):
    """a stored path below the base path loses exactly base + '/'"""
    base = sym.str("base", n)
    sym.assume(sym.not_(base.endswith("/")))
    rest = sym.str("rest", n)
    stored = base + "/" + rest
    got = _relative_to(stored, base + "/" * slashes)
    sym.cover("called")
    sym.check("base-stripped", got == rest)


def relative_outside(sym, n, slashes):
    """a stored path that is not below the base (or only textually prefixed by it) is left alone"""
    base = sym.str("base", n)
    sym.assume(sym.not_(base.endswith("/")))
    stored = sym.str("stored", n + 2)
    sym.assume(sym.not_(stored.startswith(base + "/")))
    got = _relative_to(stored, base + "/" * slashes)
    sym.cover("called")
    sym.check("left-alone", got == stored)


def dump_for_tree(sym, n):
    ef = ExtraFiles()
    base = sym.str("base", n, minlen=1)
    sym.assume(sym.not_(base.endswith("/")))
    sym.assume(sym.not_(base.startswith("/")))
    inside = sym.str("inside", n, minlen=1)
    other = sym.str("other", n + 2, minlen=1)
    sym.assume(sym.not_(other.startswith("/")))
    sym.assume(sym.not_(other.startswith(base + "/")))
    size = sym.int("size")
    cs = sym.str("cs", 3)
    try:
        ef.add("Server", "x86_64", base + "/" + inside, size, {"md5": cs})
        ef.add("Server", "x86_64", other, 7, {"md5": "x"})
    except ValueError:
        return
    out = ExtraFilesIO()
    ef.dump_for_tree(out, "Server", "x86_64", base)
    doc = json.loads(out.text())
    sym.cover("dumped")
    sym.check("header", doc["header"] == {"version": "1.0"})
    sym.check("entries", len(doc["data"]) == 2)
    sym.check("inside-relative", doc["data"][0] == {"file": inside, "size": size, "checksums": {"md5": cs}})
    sym.check("other-unchanged", doc["data"][1] == {"file": other, "size": 7, "checksums": {"md5": "x"}})
    # writing a per-tree view is not an add: the manifest still says what the add calls said, and a second view is the same
    sym.check("manifest-untouched-by-the-dump", ef.extra_files == {"Server": {"x86_64": [{"file": base + "/" + inside, "size": size, "checksums": {"md5": cs}},
                                                                                        {"file": other, "size": 7, "checksums": {"md5": "x"}}]}})
    again = ExtraFilesIO()
    ef.dump_for_tree(again, "Server", "x86_64", base)
    sym.check("second-view-identical", again.text() == out.text())


class ExtraFilesIO(object):
    """minimal text sink (keeps the harness independent of StringIO details)"""
    def __init__(self):
        self.parts = []

    def write(self, s):
        self.parts.append(s)

    def text(self):
        return self.parts[0] if len(self.parts) == 1 else "".join(self.parts)


def rpms_add_symbolic_key(sym, with_dir, with_rpm, srpm_spelling):
    """Rpms.add with a NEVRA whose parts are symbolic (every arch of the table, '.rpm' suffix, directory prefix): the RPM is filed under its
    canonical key below the canonical key of its source package - the canonical text is what C13 proves _check_nevra returns"""
    name = sym.str("name", 2, minlen=1, alphabet=["a-z", "0-9", "+"])
    version = sym.str("version", 2, minlen=1, alphabet=["0-9", "."])
    release = sym.str("release", 2, minlen=1, alphabet=["a-z", "0-9"])
    arch = sym.one_of("arch", [a for a in RPM_ARCHES if a not in ("src", "nosrc")])
    epoch = sym.int("epoch", 0, 99)
    canonical = name + "-" + str(epoch) + ":" + version + "-" + release + "." + arch
    text = canonical
    if with_dir:
        text = "Packages/" + name + "/" + text
    if with_rpm:
        text = text + ".rpm"
    srpm_canon = "glibc-0:2.18-11.fc20.src"
    srpm = {"canonical": srpm_canon, "rpm": srpm_canon + ".rpm", "dir": "SRPMS/" + srpm_canon + ".rpm"}[srpm_spelling]
    rpms = Rpms()
    path = sym.str("path", 3, minlen=1)
    sym.assume(sym.not_(path.startswith("/")))
    rpms.add("Server", "x86_64", text, path, None, "binary", srpm)
    sym.cover("called")
    sym.check("filed-exactly-there", rpms.rpms == {"Server": {"x86_64": {srpm_canon: {canonical: {"sigkey": None, "path": path, "category": "binary"}}}}})


def jobs(tier, seed):
    big = tier == "thorough"
    out = []
    for wd, wr, sp in ((False, True, "rpm"), (True, True, "canonical"), (False, False, "dir"), (True, False, "rpm")):
        out.append({"harness": "rpms_add_symbolic_key", "params": {"with_dir": wd, "with_rpm": wr, "srpm_spelling": sp}})
    nev = range(len(NEVRAS))
    srp = range(len(SRPMS))
    for pre in ((0, 1, 2) if big else (0, 2)):
        for ni in nev:
            for si in srp:
                if not big and (ni + si + pre + seed) % 2:
                    continue
                out.append({"harness": "rpms_step", "params": {"pre": pre, "nevra_i": ni, "srpm_i": si, "variant": "Server" if (ni + si) % 2 else "Client",
                                                              "arch_kind": "symbolic" if (ni + si) % 3 == 0 else "x86_64"}})
    # the srpm argument is spelled exactly like a non-canonical key that is already there: still refused (missing epoch)
    for ni in (0, 1):
        out.append({"harness": "rpms_step", "params": {"pre": 3, "nevra_i": ni, "srpm_i": 3, "variant": "Server", "arch_kind": "x86_64"}})
    # further adds into the source package that exists already (the same RPM again, a sibling sub-package, the SRPM itself)
    for ni, si in ((0, 1), (1, 1), (3, 0)):
        out.append({"harness": "rpms_step", "params": {"pre": 2, "nevra_i": ni, "srpm_i": si, "variant": "Server", "arch_kind": "x86_64"}})
    n = 8 if big else 5
    for nparts in (2, 3, 4):
        for wd in (False, True):
            out.append({"harness": "module_uid", "params": {"n": n, "nparts": nparts, "with_dir": wd}})
    out.append({"harness": "module_uid_refused", "params": {"n": 16 if big else 10}})
    out.append({"harness": "module_uid_spec", "params": {"n": 12 if big else 9}})
    for nparts in (2, 3, 4):
        out.append({"harness": "module_uid_history", "params": {"nparts": nparts}})
    for pre in (0, 1, 2):
        for ui in range(len(UIDS)):
            for rk in (("list", "tuple", "empty", "str", "none") if big else ("list", "tuple", "str")):
                if not big and (pre + ui + len(rk) + seed) % 2:
                    continue
                out.append({"harness": "modules_step", "params": {"pre": pre, "uid_i": ui, "variant": ["Server", "", "Client"][(pre + ui) % 3],
                                                                 "arch": ["x86_64", "src", "bogus", "noarch"][(ui + len(rk)) % 4], "rpms_kind": rk}})
    # a further add to an entry that exists already (same variant, arch and canonical UID; also spelled with a directory prefix)
    for pre in (1, 2):
        for ui in (1, 4):
            for rk in ("list", "tuple"):
                out.append({"harness": "modules_step", "params": {"pre": pre, "uid_i": ui, "variant": "Server", "arch": "x86_64", "rpms_kind": rk}})
    for pre in (0, 1, 2):
        for ck in ("dict", "empty", "list", "none"):
            out.append({"harness": "extra_step", "params": {"pre": pre, "variant": ["Server", "Client", ""][(pre + len(ck)) % 3],
                                                           "arch": ["x86_64", "bogus", "src"][(pre + len(ck)) % 3] if ck != "dict" else "x86_64", "checksums_kind": ck}})
    out.append({"harness": "extra_step", "params": {"pre": 1, "variant": "Server", "arch": "bogus", "checksums_kind": "dict"}})
    out.append({"harness": "extra_step", "params": {"pre": 1, "variant": "", "arch": "x86_64", "checksums_kind": "dict"}})
    m = 10 if big else 6
    for sl in (0, 1, 2):
        out.append({"harness": "relative_inside", "params": {"n": m, "slashes": sl}})
        out.append({"harness": "relative_outside", "params": {"n": m, "slashes": sl}})
    out.append({"harness": "dump_for_tree", "params": {"n": 5 if big else 3}})
    for tc in (0, 1):
        out.append({"harness": "modules_shared_list", "params": {"third_cell": tc}})
    out.append({"harness": "extra_shared_dict", "params": {}})
    return out


META = {
    "expected_covers": {"rpms_step": ["called", "accepted"], "rpms_add_symbolic_key": ["called"], "module_uid": ["parsed"], "module_uid_history": ["parsed"], "module_uid_refused": ["called"], "module_uid_spec": ["called"],
                        "modules_step": ["called", "accepted"], "extra_step": ["called", "accepted"],
                        "modules_shared_list": ["called"], "extra_shared_dict": ["called"], "relative_inside": ["called"], "relative_outside": ["called"], "dump_for_tree": ["dumped"]},
    "assumptions": [
        "one-step claims from pre-states reached by 0-2 real add calls; NEVRAs, module UIDs, variants are dict keys and come from a concrete pool "
        "(including invalid shapes); path, sigkey, category, koji tag, modulemd path, sizes, checksum values are symbolic (parsing of arbitrary NEVRA strings is C13)",
        "rpms_add_symbolic_key: name / version / release of 1-2 characters, epoch 0..99, every binary arch of the table, with and without '.rpm' and a directory prefix",
        "Rpms.add with an empty path is neither required to be refused nor to be accepted (the documentation is silent): path has at least one character there",
        "sigkey over hexadecimal digits (documented as a key id), so that str.lower() is exact",
        "module_uid_spec: every string of up to 9 (thorough 12) characters over {a, b, 1, '.', ':'} as the UID of a Modules.add",
        "module UID parts are free of ':', '/' and newline (a '/' inside a stream would be read as a directory prefix)",
    ],
}
