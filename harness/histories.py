"""What the process did before the scenario that is checked: shared by the round-trip harnesses (C01-C04).

warm(fmt)      another valid document of the same format, with other content, is written and read back by other objects first
               (module- or class-level state that survives from one object to the next would show)
scribble_*(o)  an object that was loaded from the very text the harness is about to load again is edited in place afterwards:
               its containers are the caller's to change, and nothing of that may reach a later load of the same text
"""
import C06
from productmd.rpms import Rpms
from productmd.modules import Modules
from productmd.extra_files import ExtraFiles


def warm(fmt):
    if fmt == "composeinfo":
        top = C06.base_composeinfo(2)[0]
    elif fmt == "images":
        top = C06.base_images(2)[0]
    elif fmt == "treeinfo":
        top = C06.base_treeinfo(2)[0]
    elif fmt == "rpms":
        top = C06.base_compose_only(Rpms)
        top.add("Server", "x86_64", "bash-0:4.2-1.fc20.x86_64", "Server/x86_64/os/b/bash.rpm", "AABBCCDD", "binary", "bash-0:4.2-1.fc20.src.rpm")
        top.add("Workstation", "aarch64", "bash-0:4.2-1.fc20.src.rpm", "Workstation/source/b/bash.src.rpm", None, "source")
    elif fmt == "modules":
        top = C06.base_compose_only(Modules)
        top.add("Server", "x86_64", "ruby:2.5:20180123:c0ffee", "tag-w", "Server/x86_64/os/repodata/w.yaml", "binary", ["warm-0:1-1.noarch"])
    else:
        top = C06.base_compose_only(ExtraFiles)
        top.add("Server", "x86_64", "Server/x86_64/os/WARM", 3, {"md5": "warm"})
    text = top.dumps()
    again = type(top)()
    again.loads(text)
    again.dumps()


def scribble_composeinfo(ci):
    ci.release.name = "scribbled"
    ci.compose.respin = 987
    for v in ci.get_variants(recursive=True):
        v.name = "scribbled"
        v.arches.add("scribbled")
        v.paths.os_tree["x86_64"] = "scribbled"
        v.paths.packages["scribbled"] = "scribbled"


def scribble_treeinfo(ti):
    ti.release.name = "scribbled"
    ti.tree.platforms.add("scribbled")
    for v in ti.variants.get_variants(recursive=True):
        v.name = "scribbled"
        v.paths.packages = "scribbled"
    for platform in list(ti.images.images):
        ti.images.images[platform]["scribbled"] = "scribbled"
    ti.images.images["scribbled"] = {"kernel": "scribbled"}
    for k in list(ti.checksums.checksums):
        ti.checksums.checksums[k] = ["md5", "scribbled"]
    ti.checksums.checksums["scribbled"] = ["md5", "scribbled"]


def scribble_mapping(m):
    """rpms / modules / extra files: the loaded nested mapping is edited in place at every level"""
    def walk(x):
        if isinstance(x, dict):
            for k in list(x):
                walk(x[k])
            x["scribbled"] = "scribbled"
        elif isinstance(x, list):
            for y in x:
                walk(y)
            x.append("scribbled")
    walk(m)
