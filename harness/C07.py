"""C07 - documents violating a documented constraint are rejected on load."""
import json

from productmd.composeinfo import ComposeInfo
from productmd.images import Images
from productmd.rpms import Rpms
from productmd.modules import Modules
from productmd.extra_files import ExtraFiles
from domains import KINDS, make_value, in_domain
import C06
import C09
import io
import productmd.treeinfo
from productmd.common import SortedConfigParser

PROPERTY = "C07"

CLASSES = {"composeinfo": ComposeInfo, "images": Images, "rpms": Rpms, "modules": Modules, "extra_files": ExtraFiles}
TYPES = {"composeinfo": "productmd.composeinfo", "images": "productmd.images", "rpms": "productmd.rpms", "modules": "productmd.modules",
         "extra_files": "productmd.extra_files"}


def base_doc(fmt, k):
    """a valid current-version document, produced by the real writer from a valid object"""
    if fmt == "composeinfo":
        top, _ = C06.base_composeinfo(k)
    elif fmt == "images":
        top, _ = C06.base_images(k)
    else:
        top = C06.base_compose_only(CLASSES[fmt])
        if fmt == "rpms":
            top.add("Server", "x86_64", "glibc-0:2.18-11.fc20.x86_64", "Server/x86_64/os/g/glibc.rpm", None, "binary", "glibc-0:2.18-11.fc20.src.rpm")
        elif fmt == "modules":
            top.add("Server", "x86_64", "ruby:2.5:20180123:c0ffee", "tag-1", "Server/x86_64/os/repodata/m.yaml", "binary", ["ruby-0:2.5-1.x86_64"])
        else:
            top.add("Server", "x86_64", "Server/x86_64/os/GPL", 123, {"md5": "abcde"})
    return json.loads(top.dumps())


def kind_of(v):
    if v is None:
        return "none"
    if isinstance(v, bool):
        return "bool"
    if isinstance(v, int):
        return "int"
    if isinstance(v, float):
        return "float"
    if isinstance(v, str):
        return "str"
    if isinstance(v, (list, tuple, set)):
        return "list"
    if isinstance(v, dict):
        return "dict"
    return "other"


def walk(doc, path):
    for p in path[:-1]:
        doc = doc[p]
    return doc, path[-1]


def fetch(obj, getter):
    for g in getter:
        if isinstance(g, list):
            # [variant, arch, path of the image]: find the image in its cell
            cell = obj[g[0]][g[1]]
            obj = [i for i in sorted(cell, key=lambda i: i.path) if True][g[2]]
        elif g.startswith("["):
            obj = obj[g[1:-1]]
        else:
            obj = getattr(obj, g)
    return obj


def writable(obj):
    """'everything a caller obtains from a successful load satisfies the same constraints that writing enforces'"""
    try:
        obj.dumps()
        return True
    except (ValueError, TypeError):
        return False


def load_via(sym, obj, text, via):
    """hand the text to the reader as a string, as a local file, or as a remote one (HTTP)"""
    if via == "loads":
        obj.loads(text)
        return
    root, bits = sym.symbolic_fs({"": None, "doc.json": text}, "docs", via == "url")
    sym.assume(bits["doc.json"])
    obj.load(root + "/doc.json")


def corrupt_leaf(sym, fmt, path, rule, maxlen, getter, k, via="loads"):
    """one leaf takes any value outside its documented domain: the load fails, or what it yields is valid again"""
    doc = base_doc(fmt, k)
    holder, key = walk(doc, path)
    kind = sym.choice("kind", KINDS)
    v = make_value(sym, kind, "v", maxlen, rule)
    d = in_domain(sym, rule, kind, v)
    if d is None or d is True:
        return
    sym.assume(sym.not_(d))
    if kind == "str" and rule in ("release-type",):
        sym.assume(sym.not_(sym.or_(*[sym.char_at_in(v, i, ["A-Z"]) for i in range(maxlen)])))     # the reader case-folds release types (documented)
    if kind == "str" and rule == "label":
        sym.assume(len(v) > 0)                 # an empty label is read as 'no label' (documented normalisation)
    holder[key] = v
    sym.cover("corrupted")
    obj = CLASSES[fmt]()
    try:
        load_via(sym, obj, json.dumps(doc), via)
        raised = False
    except Exception:
        raised = True
    if raised:
        sym.check("rejected-or-valid-after-load", True)
        return
    sym.cover("accepted-after-normalisation")
    try:
        loaded = fetch(obj, getter)
    except (KeyError, IndexError, AttributeError, TypeError):
        sym.check("a-load-that-returns-has-loaded-the-document", False)
        return
    lk = kind_of(loaded)
    ok = in_domain(sym, rule, lk, loaded)
    sym.check("rejected-or-valid-after-load", ok is None or ok)
    sym.check("what-was-loaded-can-be-written", writable(obj))


PARENT_ARCHES = {"Server-HA": ["x86_64", "s390x"], "Server-HA-Deep": ["x86_64"], "Server-optional": ["x86_64", "s390x"]}


def variant_arches(sym, uid, k):
    """the arch list of a nested variant takes any selection of names: the document is loaded exactly when the selection is non-empty,
    inside the arch set of the variant's own parent, and still covers the arches of the variant's children"""
    doc = base_doc("composeinfo", k)
    chosen = []
    for i, a in enumerate(["x86_64", "s390x", "ppc64le"]):
        if sym.bool("has%d" % i):
            chosen.append(a)
    doc["payload"]["variants"][uid]["arches"] = chosen
    sym.cover("corrupted")
    children = [u for u in doc["payload"]["variants"] if u.startswith(uid + "-") and u.count("-") == uid.count("-") + 1]
    ok = len(chosen) > 0 and all(a in PARENT_ARCHES[uid] for a in chosen) and \
        all(a in chosen for c in children for a in doc["payload"]["variants"][c]["arches"])
    obj = ComposeInfo()
    try:
        obj.loads(json.dumps(doc))
        raised = False
    except Exception:
        raised = True
    sym.check("loaded-iff-arches-fit-parent-and-children", raised == (not ok))
    if not raised:
        sym.check("what-was-loaded-can-be-written", writable(obj))


def header_type(sym, fmt, k):
    """a header naming another metadata type is rejected from format 1.1 on"""
    doc = base_doc(fmt, k)
    major = sym.int("major", 0, 3)
    minor = sym.int("minor", 0, 3)
    t = sym.str("type", 24)
    sym.assume(t != TYPES[fmt])
    doc["header"]["version"] = "%d.%d" % (major, minor)
    doc["header"]["type"] = t
    obj = CLASSES[fmt]()
    try:
        obj.loads(json.dumps(doc))
        raised = False
    except Exception:
        raised = True
    sym.cover("loaded")
    sym.check("foreign-type-rejected-from-1.1", sym.implies(sym.or_(major > 1, sym.and_(major == 1, minor >= 1)), raised))


def header_version(sym, fmt, k):
    """a malformed version string is rejected"""
    doc = base_doc(fmt, k)
    kind = sym.choice("kind", KINDS)
    v = make_value(sym, kind, "version", 8)
    if kind == "str":
        head = v.split(".")
        wellformed = sym.and_(v.count(".") == 1, sym.chars_in(v, ["0-9", "."]), sym.not_(v.startswith(".")), sym.not_(v.endswith(".")))
        sym.assume(sym.not_(wellformed))
    doc["header"]["version"] = v
    obj = CLASSES[fmt]()
    try:
        obj.loads(json.dumps(doc))
        raised = False
    except Exception:
        raised = True
    sym.cover("loaded")
    sym.check("malformed-version-rejected", raised)


def delete_key(sym, fmt, path, k):
    """a required key or section is missing: the load fails"""
    doc = base_doc(fmt, k)
    # the rest of the document keeps symbolic content so that the verdict does not hinge on one concrete file
    doc["payload"]["compose"]["respin"] = sym.int("respin")
    holder, key = walk(doc, path)
    del holder[key]
    obj = CLASSES[fmt]()
    try:
        obj.loads(json.dumps(doc))
        raised = False
    except Exception:
        raised = True
    sym.cover("loaded")
    sym.check("missing-required-key-rejected", raised)


def tree_parser(k):
    """a valid current-version .treeinfo, produced by the real writer, parsed back into a parser object"""
    ti, _ = C06.base_treeinfo(k)
    p = SortedConfigParser()
    p.read_string(ti.dumps())
    return p


def tree_text(p):
    f = io.StringIO()
    p.write(f)
    f.seek(0)
    return f.read()


def tree_fetch(ti, getter):
    obj = ti
    for g in getter:
        if g.startswith("["):
            obj = obj[g[1:-1]]
        else:
            obj = getattr(obj, g)
    return obj


def tree_corrupt_option(sym, section, option, rule, maxlen, getter, k):
    """one option of a .treeinfo takes a value outside its documented domain: rejected, or valid after load"""
    p = tree_parser(k)
    v = sym.str("v", maxlen, alphabet="printable")
    sym.assume(sym.not_(v.startswith(" ")))
    sym.assume(sym.not_(v.endswith(" ")))
    d = in_domain(sym, rule, "str", v)
    if d is True:
        return
    sym.assume(sym.not_(d))
    p.set(section, option, v)
    sym.cover("corrupted")
    ti = productmd.treeinfo.TreeInfo()
    try:
        ti.loads(tree_text(p))
        raised = False
    except Exception:
        raised = True
    if raised:
        sym.check("rejected-or-valid-after-load", True)
        return
    sym.cover("accepted-after-normalisation")
    loaded = tree_fetch(ti, getter)
    ok = in_domain(sym, rule, kind_of(loaded), loaded)
    sym.check("rejected-or-valid-after-load", ok is None or ok)
    sym.check("what-was-loaded-can-be-written", writable(ti))


# spellings of the build timestamp a hand-edited or foreign .treeinfo may carry: everything float() accepts that is not a finite
# number, numbers with exponents / fractions / blanks, and text that is no number at all (concrete pool: float parsing of arbitrary
# symbolic text is not modelled)
TIMESTAMP_LITERALS = ["nan", "NaN", "-nan", "inf", "-inf", "+Infinity", "infinity", "1e400", "-1e999", "abc", "12abc", "0x10", "1_000", "1,5", "--1", "1.5", "-2.75",
                      "1e3", "1417653453.95", ".5", "5.", "١٢٣"]


def tree_timestamp_literal(sym, k):
    """[tree] build_timestamp is replaced by text that is not a plain integer: the load raises, or what it yields is a finite number
    (an int or a float, as documented) and the loaded tree can be written"""
    p = tree_parser(k)
    v = sym.choice("literal", TIMESTAMP_LITERALS)
    p.set("tree", "build_timestamp", v)
    if p.has_option("general", "timestamp"):
        p.set("general", "timestamp", v)
    sym.cover("corrupted")
    ti = productmd.treeinfo.TreeInfo()
    try:
        ti.loads(tree_text(p))
        raised = False
    except Exception:
        raised = True
    if raised:
        sym.check("rejected-or-valid-after-load", True)
        return
    sym.cover("accepted-after-normalisation")
    t = ti.tree.build_timestamp
    finite = isinstance(t, (int, float)) and not isinstance(t, bool) and t == t and t not in (float("inf"), float("-inf"))
    sym.check("rejected-or-valid-after-load", finite)
    sym.check("what-was-loaded-can-be-written", writable(ti))


def tree_platforms(sym, k):
    """[tree] platforms takes any selection of platform names: a document with an [images-P] section whose P is not listed is
    rejected (the tree's own arch is no exception)"""
    p = tree_parser(k)
    arch = p.get("tree", "arch")
    extra = sym.str("extra", 3, minlen=1, alphabet=["a-z", "0-9", "_"])
    listed = []
    for i, token in enumerate([arch, "xen", "ppc64le", extra]):
        if sym.bool("listed%d" % i):
            listed.append(token)
    if not listed:
        return          # an empty value is the deleted-option case (tree_delete)
    p.set("tree", "platforms", ",".join(listed))
    sym.cover("corrupted")
    with_images = [sec[len("images-"):] for sec in p.sections() if sec.startswith("images-")]
    unlisted = sym.or_(*[sym.not_(sym.or_(*[x == t for t in listed])) for x in with_images])
    ti = productmd.treeinfo.TreeInfo()
    try:
        ti.loads(tree_text(p))
        raised = False
    except Exception:
        raised = True
    sym.check("unlisted-image-platform-rejected", sym.implies(unlisted, raised))
    if not raised:
        sym.check("what-was-loaded-can-be-written", writable(ti))


CHILD_SECTIONS = {"Server-HA": ("addon-Server-HA", "HA"), "Server-optional": ("variant-Server-optional", "optional")}


def tree_child_misaligned(sym, child, k):
    """a child variant whose id does not continue its parent's UID (first or later child alike) is rejected"""
    p = tree_parser(k)
    section, vid = CHILD_SECTIONS[child]
    v = sym.str("v", 8, minlen=1, alphabet="alnum")
    sym.assume(v != vid)
    p.set(section, "id", v)
    sym.cover("corrupted")
    ti = productmd.treeinfo.TreeInfo()
    try:
        ti.loads(tree_text(p))
        raised = False
    except Exception:
        raised = True
    sym.check("misaligned-child-uid-rejected", raised)
    if not raised:
        sym.check("what-was-loaded-can-be-written", writable(ti))


def tree_header(sym, k):
    p = tree_parser(k)
    major = sym.int("major", 0, 3)
    minor = sym.int("minor", 0, 3)
    sym.assume(sym.or_(major > 1, sym.and_(major == 1, minor >= 1)))      # older versions select older readers (C05)
    t = sym.str("type", 20, alphabet="printable")
    sym.assume(sym.not_(t.startswith(" ")))
    sym.assume(sym.not_(t.endswith(" ")))
    sym.assume(t != "productmd.treeinfo")
    p.set("header", "version", "%d.%d" % (major, minor))
    p.set("header", "type", t)
    ti = productmd.treeinfo.TreeInfo()
    try:
        ti.loads(tree_text(p))
        raised = False
    except Exception:
        raised = True
    sym.cover("loaded")
    sym.check("foreign-type-rejected-from-1.1", raised)


def tree_version(sym, k):
    p = tree_parser(k)
    v = sym.str("version", 6, alphabet="printable")
    sym.assume(sym.not_(v.startswith(" ")))
    sym.assume(sym.not_(v.endswith(" ")))
    wellformed = sym.and_(v.count(".") == 1, sym.chars_in(v, ["0-9", "."]), sym.not_(v.startswith(".")), sym.not_(v.endswith(".")))
    sym.assume(sym.not_(wellformed))
    p.set("header", "version", v)
    ti = productmd.treeinfo.TreeInfo()
    try:
        ti.loads(tree_text(p))
        raised = False
    except Exception:
        raised = True
    sym.cover("loaded")
    sym.check("malformed-version-rejected", raised)


def tree_delete(sym, section, option, k):
    p = tree_parser(k)
    p.set("tree", "build_timestamp", str(sym.int("timestamp", 1, 2 ** 40)))
    if option is None:
        p.remove_section(section)
    else:
        p.remove_option(section, option)
    ti = productmd.treeinfo.TreeInfo()
    try:
        ti.loads(tree_text(p))
        raised = False
    except Exception:
        raised = True
    sym.cover("loaded")
    sym.check("missing-required-key-rejected", raised)


# a document holding two images of equal identity and different checksums (any placement) violates the identity rule of format >= 1.1
images_identity_collision = C09.load_collision


COMPOSE_LEAVES = [("id", "compose-id", 12), ("type", "compose-type", 12), ("date", "date", 9), ("respin", "int", 0), ("label", "label", 16)]
RELEASE_LEAVES = [("name", "str", 3), ("short", "str", 3), ("version", "release-version", 6), ("type", "release-type", 16)]
VARIANT_LEAVES = [("id", "variant-id", 6), ("name", "str-nonblank", 3), ("type", "variant-type", 16)]
IMAGE_LEAVES = [("path", "str-nonblank", 3), ("mtime", "int", 0), ("size", "int-nonzero", 0), ("volume_id", "none-or-str-nonblank", 3),
                ("type", "image-type", 22), ("format", "image-format", 22), ("arch", "str-nonblank", 3), ("disc_number", "int", 0),
                ("disc_count", "int", 0), ("checksums", "checksums", 0), ("implant_md5", "implant-md5", 33), ("bootable", "bool-coerced", 0),
                ("subvariant", "str", 3)]


def jobs(tier, seed):
    big = tier == "thorough"
    out = []
    k = seed % 10

    def leaf(fmt, path, rule, maxlen, getter):
        if rule == "bool-coerced":
            return
        via = ["loads", "loads", "path", "loads", "url"][(len(out) + seed) % 5] if not big else ["loads", "path", "url"][(len(out) + seed) % 3]
        out.append({"harness": "corrupt_leaf", "params": {"fmt": fmt, "path": path, "rule": rule, "maxlen": maxlen, "getter": getter, "k": k, "via": via}})
    for fmt in CLASSES:
        for a, r, m in COMPOSE_LEAVES:
            leaf(fmt, ["payload", "compose", a], r, m, ["compose", a])
    for a, r, m in RELEASE_LEAVES:
        leaf("composeinfo", ["payload", "release", a], r, m, ["release", a])
        leaf("composeinfo", ["payload", "base_product", a], r, m, ["base_product", a])
        leaf("composeinfo", ["payload", "variants", "Server-SAT", "release", a], r, m, ["[Server-SAT]", "release", a])
    for uid in ("Server", "Server-HA", "Client"):
        for a, r, m in VARIANT_LEAVES:
            leaf("composeinfo", ["payload", "variants", uid, a], r, m, ["[%s]" % uid, a])
    for variant, arch, idx in (("Server", "x86_64", 0), ("Server", "x86_64", 1), ("Client", "aarch64", 0)):
        for a, r, m in IMAGE_LEAVES:
            if a == "path":
                continue        # the path orders the cell; it is checked through the first image only below
            leaf("images", ["payload", "images", variant, arch, idx, a], r, m, ["images", [variant, arch, idx], a])
    for uid in sorted(PARENT_ARCHES):
        out.append({"harness": "variant_arches", "params": {"uid": uid, "k": k}})
    for fmt in CLASSES:
        out.append({"harness": "header_type", "params": {"fmt": fmt, "k": k}})
        out.append({"harness": "header_version", "params": {"fmt": fmt, "k": k}})
    required = {
        "composeinfo": [["header"], ["header", "version"], ["payload"], ["payload", "compose"], ["payload", "compose", "id"], ["payload", "compose", "type"],
                        ["payload", "compose", "date"], ["payload", "compose", "respin"], ["payload", "release"], ["payload", "release", "name"],
                        ["payload", "release", "short"], ["payload", "release", "version"], ["payload", "base_product"], ["payload", "base_product", "name"],
                        ["payload", "variants"], ["payload", "variants", "Server", "id"], ["payload", "variants", "Server-HA", "uid"],
                        ["payload", "variants", "Client", "name"], ["payload", "variants", "Server", "type"], ["payload", "variants", "Server-optional", "arches"],
                        ["payload", "variants", "Server-HA", "paths"], ["payload", "variants", "Server-HA"], ["payload", "variants", "Server-SAT", "release"]],
        "images": [["header"], ["header", "version"], ["payload"], ["payload", "compose"], ["payload", "images"]] +
                  [["payload", "images", "Server", "x86_64", 1, a] for a in ("path", "mtime", "size", "volume_id", "type", "arch", "disc_number", "disc_count",
                                                                            "checksums", "implant_md5", "bootable", "subvariant")],
        "rpms": [["header"], ["payload"], ["payload", "compose"], ["payload", "rpms"], ["payload", "compose", "date"]],
        "modules": [["header"], ["payload"], ["payload", "compose"], ["payload", "modules"], ["payload", "compose", "id"]],
        "extra_files": [["header"], ["payload"], ["payload", "compose"], ["payload", "extra_files"], ["payload", "compose", "type"]],
    }
    for fmt, paths in required.items():
        for p in paths:
            out.append({"harness": "delete_key", "params": {"fmt": fmt, "path": p, "k": k}})
    for cell2 in (0, 1, 2):
        for wu in (False, True):
            out.append({"harness": "images_identity_collision", "params": {"cell2": cell2, "with_unified": wu}})
    # treeinfo
    arch = ["x86_64", "src", "s390x"][k % 3]
    for section, option, rule, maxlen, getter in [
            ("release", "version", "tree-version", 5, ["release", "version"]),
            ("base_product", "version", "tree-version", 5, ["base_product", "version"]),
            ("variant-Server", "type", "tree-variant-type", 10, ["variants", "[Server]", "type"]),
            ("variant-Client", "type", "tree-variant-type", 10, ["variants", "[Client]", "type"]),
            ("variant-Server", "id", "tree-variant-id", 6, ["variants", "[Server]", "id"]),
            ("stage2", "mainimage", "relative-path", 5, ["stage2", "mainimage"]),
            ("images-xen", "kernel", "relative-path", 5, ["images", "images", "[xen]", "[kernel]"]),
            ("images-" + arch, "boot.iso", "relative-path", 5, ["images", "images", "[%s]" % arch, "[boot.iso]"]),
            # an image name that another platform's section has as well
            ("images-" + arch, "kernel", "relative-path", 5, ["images", "images", "[%s]" % arch, "[kernel]"])]:
        out.append({"harness": "tree_corrupt_option", "params": {"section": section, "option": option, "rule": rule, "maxlen": maxlen, "getter": getter, "k": k}})
    for section, option, rule, maxlen, getter in [
            ("addon-Server-HA", "type", "tree-variant-type", 10, ["variants", "[Server]", "variants", "[HA]", "type"]),
            ("variant-Server-optional", "type", "tree-variant-type", 10, ["variants", "[Server]", "variants", "[optional]", "type"]),
            ("addon-Server-HA", "id", "tree-variant-id", 6, ["variants", "[Server]", "variants", "[HA]", "id"])]:
        out.append({"harness": "tree_corrupt_option", "params": {"section": section, "option": option, "rule": rule, "maxlen": maxlen, "getter": getter, "k": k}})
    out.append({"harness": "tree_platforms", "params": {"k": k}})
    out.append({"harness": "tree_timestamp_literal", "params": {"k": k}})
    for child in sorted(CHILD_SECTIONS):
        out.append({"harness": "tree_child_misaligned", "params": {"child": child, "k": k}})
    out.append({"harness": "tree_header", "params": {"k": k}})
    out.append({"harness": "tree_version", "params": {"k": k}})
    for section, option in [("release", None), ("release", "name"), ("release", "version"), ("base_product", None), ("base_product", "short"),
                            ("tree", "arch"), ("tree", "platforms"), ("tree", "build_timestamp"), ("variant-Server", None), ("variant-Server", "id"),
                            ("variant-Server", "uid"), ("variant-Server", "name"), ("variant-Server", "type"), ("addon-Server-HA", None),
                            ("media", "totaldiscs")]:
        out.append({"harness": "tree_delete", "params": {"section": section, "option": option, "k": k}})
    return out


META = {
    "expected_covers": {"variant_arches": ["corrupted"], "corrupt_leaf": ["corrupted"], "header_type": ["loaded"], "header_version": ["loaded"], "delete_key": ["loaded"],
                        "images_identity_collision": ["loaded"], "tree_corrupt_option": ["corrupted"], "tree_child_misaligned": ["corrupted"], "tree_platforms": ["corrupted"], "tree_timestamp_literal": ["corrupted", "accepted-after-normalisation"], "tree_header": ["loaded"], "tree_version": ["loaded"], "tree_delete": ["loaded"]},
    "assumptions": [
        "documents reach the reader through loads(text), load(path) on the symbolic file system, or load('http://...') answered by the urlopen model (rotating per job)",
        "base documents are produced by the real writer from valid objects (nested/layered-product variants, three images, one payload entry); one corruption at a time",
        "oracle: the load raises, or the value found in the loaded object is again inside the documented domain (the readers normalise e.g. numeric strings, "
        "case of release types, empty labels) - i.e. nothing obtained from a successful load violates what writing enforces",
        "documentation-silent corners as in C06 (non-ASCII digits, newlines, bool for int, size 0); fields the readers coerce with bool() have no load-time rule",
        "treeinfo documents: the written base tree is parsed into a parser object, one option is replaced / removed, the text is written again and loaded; "
        "values printable ASCII without leading/trailing blank; sections with a documented legacy fall-back (header, [tree]) are not 'required'",
        "JSON text layer replaced by the DocText stub",
        "tree_timestamp_literal: the build timestamp takes each of %d concrete spellings (non-finite, exponent, fraction, non-numeric, non-ASCII digits); "
        "ordinary execution of concrete inputs, not a solver decision" % len(TIMESTAMP_LITERALS),
    ],
}
