"""C20 - a compose directory is resolved to the same metadata in every supported layout."""
import os

import productmd.compose
from productmd.composeinfo import ComposeInfo
from productmd.images import Images
from productmd.rpms import Rpms
from productmd.modules import Modules
import C06

PROPERTY = "C20"

FILES = {"info": ["composeinfo.json"], "images": ["images.json", "image-manifest.json"], "rpms": ["rpms.json", "rpm-manifest.json"],
         "modules": ["modules.json"]}
CLASSES = {"info": ComposeInfo, "images": Images, "rpms": Rpms, "modules": Modules}


def make_doc(accessor, tag):
    """a valid document whose content identifies the place it was planted at"""
    if accessor == "info":
        top, _ = C06.base_composeinfo(tag % 10)
        top.release.name = "Product at %d" % tag
    elif accessor == "images":
        top, _ = C06.base_images(tag % 3)
        if tag % 2 == 0:
            top.images.clear()
        top.compose.respin = tag
    elif accessor == "rpms":
        top = C06.base_compose_only(Rpms)
        top.compose.respin = tag
        if tag % 2 == 0:
            return top.dumps()          # a manifest without entries (a compose without such content) is a manifest like any other
        top.add("Server", "x86_64", "glibc-0:2.18-11.fc20.x86_64", "Server/x86_64/os/g/glibc-%d.rpm" % tag, None, "binary", "glibc-0:2.18-11.fc20.src.rpm")
    else:
        top = C06.base_compose_only(Modules)
        top.compose.respin = tag
        if tag % 2 == 0:
            return top.dumps()
        top.add("Server", "x86_64", "ruby:2.5:20180123:c0ffee", "tag-%d" % tag, "Server/x86_64/os/repodata/m.yaml", "binary", ["ruby-0:2.5-1.x86_64"])
    return top.dumps()


def resolve(sym, accessor, trailing_slash, locs, bad, root_name="root", remote=False):
    entries = {"": None}
    tag = 0
    names = FILES[accessor]
    for loc in locs:
        if loc:
            entries[loc] = None
        md = os.path.join(loc, "metadata")
        entries[md] = None
        for name in sorted(set(["composeinfo.json"] + names)):
            tag += 1
            kind = "info" if name == "composeinfo.json" else accessor
            text = make_doc(kind, tag)
            if bad is not None and bad[0] == loc and bad[1] == name:
                text = ["{{ this is not json", text.replace("productmd." + {"info": "composeinfo", "images": "images", "rpms": "rpms", "modules": "modules"}[kind],
                                                            "productmd.other")][bad[2]]
            entries[os.path.join(md, name)] = text
    root, bits = sym.symbolic_fs(entries, root_name, remote)          # the opened directory's own name must not matter
    path = root + "/" if trailing_slash else root
    c = productmd.compose.Compose(path)
    sym.cover("opened")
    # ---- documented precedence for the location
    if bits[os.path.join("compose", "metadata", "composeinfo.json")] if "compose" in locs else False:
        allowed = [os.path.join(path, "compose")]
    elif remote or not bits[""]:
        allowed = [path]          # the legacy scan needs a directory listing: local paths only (documented)
    else:
        cands = []
        for loc in locs:
            if loc and bits[loc] and bits[os.path.join(loc, "metadata")]:
                cands.append(os.path.join(path, loc))
        allowed = cands if cands else [path]
    sym.check("location-follows-documented-precedence", c.compose_path in allowed)
    base = c.compose_path
    # ---- the file the accessor must use: current name before legacy name
    chosen = None
    for name in names:
        rel = os.path.normpath(os.path.relpath(os.path.join(base, "metadata", name), root))
        if rel in bits and bits[rel]:
            chosen = rel
            break
    try:
        obj = getattr(c, accessor)
        error = None
    except RuntimeError as e:
        obj = None
        error = e
    sym.cover("accessed")
    if chosen is None:
        sym.check("missing-file-is-RuntimeError", error is not None)
        if error is not None:
            sym.check("error-names-location", base in str(error))
        try:
            getattr(c, accessor)
            again_error = None
        except RuntimeError as e:
            again_error = e
        sym.check("missing-file-is-RuntimeError-on-every-access", again_error is not None)
        return
    is_bad = bad is not None and os.path.normpath(os.path.join(bad[0], "metadata", bad[1])) == chosen
    if is_bad:
        sym.check("undecodable-file-is-RuntimeError", error is not None)
        if error is not None:
            sym.check("error-names-file", os.path.join(base, "metadata", os.path.basename(chosen)) in str(error))
        # a failed load leaves nothing behind: asking again fails again
        try:
            getattr(c, accessor)
            again_error = None
        except RuntimeError as e:
            again_error = e
        sym.check("undecodable-file-is-RuntimeError-on-every-access", again_error is not None)
        return
    sym.check("loaded", error is None)
    if error is not None:
        return
    direct = CLASSES[accessor]()
    direct.loads(entries[chosen])
    sym.check("equals-direct-load-of-that-file", obj.dumps() == direct.dumps())
    sym.check("right-type", isinstance(obj, CLASSES[accessor]))
    again = getattr(c, accessor)
    sym.check("loaded-once-then-reused", again is obj)


def resolve_after_change(sym, accessor, remote, dirs_fixed=True):
    """what a Compose object resolves depends on what is stored when it is opened and read - not on what an earlier object in the
    same process saw at the same location"""
    entries = {"": None}
    tag = 0
    for loc in ("", "compose"):
        if loc:
            entries[loc] = None
        md = os.path.join(loc, "metadata")
        entries[md] = None
        for name in sorted(set(["composeinfo.json"] + FILES[accessor])):
            tag += 1
            entries[os.path.join(md, name)] = make_doc("info" if name == "composeinfo.json" else accessor, tag)
    root, bits = sym.symbolic_fs(entries, "root", remote)
    dirs = [rel for rel, content in entries.items() if content is None]
    if dirs_fixed:
        for rel in dirs:
            sym.assume(bits[rel])          # quick tier: the directories are there all along, the files come and go
    first = productmd.compose.Compose(root)
    try:
        getattr(first, accessor)
    except RuntimeError:
        pass
    sym.cover("opened")
    bits = sym.fs_change()          # files appear and disappear (e.g. a compose that is still being written)
    if dirs_fixed:
        for rel in dirs:
            sym.assume(bits[rel])
    c = productmd.compose.Compose(root)
    if bits[os.path.join("compose", "metadata", "composeinfo.json")]:
        base = os.path.join(root, "compose")
    elif remote or not bits[""]:
        base = root
    else:
        base = None          # local legacy scan: any sub-directory with metadata/ (covered by resolve)
    if base is not None:
        sym.check("location-follows-what-is-stored-now", c.compose_path == base)
    base = c.compose_path
    chosen = None
    for name in FILES[accessor]:
        rel = os.path.normpath(os.path.relpath(os.path.join(base, "metadata", name), root)) if not remote else os.path.join(base[len(root):].strip("/"), "metadata", name)
        if rel in bits and bits[rel]:
            chosen = rel
            break
    try:
        obj = getattr(c, accessor)
        error = None
    except RuntimeError as e:
        obj = None
        error = e
    sym.cover("accessed")
    if chosen is None:
        sym.check("missing-now-is-RuntimeError", error is not None)
        return
    sym.check("present-now-is-loaded", error is None)
    if error is None:
        direct = CLASSES[accessor]()
        direct.loads(entries[chosen])
        sym.check("equals-direct-load-of-the-file-stored-now", obj.dumps() == direct.dumps())


def expect_for(sym, c, accessor, bits, entries, root, bad_rel):
    """(chosen relative file or None) for an accessor, by the documented precedence: current name before legacy name"""
    for name in FILES[accessor]:
        rel = os.path.normpath(os.path.relpath(os.path.join(c.compose_path, "metadata", name), root))
        if rel in bits and bits[rel]:
            return rel
    return None


def resolve_pair(sym, first, second, loc):
    """two accessors read one after the other on the same object: each one is resolved on its own"""
    entries = {"": None}
    if loc:
        entries[loc] = None
    md = os.path.join(loc, "metadata")
    entries[md] = None
    tag = 0
    kinds = {}
    for acc in ("info", first, second):
        for name in FILES[acc]:
            rel = os.path.join(md, name)
            if rel not in entries:
                tag += 1
                entries[rel] = make_doc(acc, tag)
                kinds[rel] = acc
    root, bits = sym.symbolic_fs(entries)
    sym.assume(bits[os.path.join(md, "composeinfo.json")])
    c = productmd.compose.Compose(root)
    sym.cover("opened")
    for acc in (first, second):
        chosen = expect_for(sym, c, acc, bits, entries, root, None)
        try:
            obj = getattr(c, acc)
            error = None
        except RuntimeError as e:
            obj = None
            error = e
        if chosen is None:
            sym.check("missing-file-is-RuntimeError[%s]" % acc, error is not None)
            continue
        sym.check("loaded[%s]" % acc, error is None)
        if error is not None:
            continue
        direct = CLASSES[acc]()
        direct.loads(entries[chosen])
        sym.check("equals-direct-load-of-that-file[%s]" % acc, obj.dumps() == direct.dumps())
        sym.check("reused[%s]" % acc, getattr(c, acc) is obj)
    sym.cover("accessed")


def jobs(tier, seed):
    big = tier == "thorough"
    out = []
    loc_sets = [["", "compose"], ["", "1.0"], ["compose", "1.0"], ["", "compose", "1.0"], ["", "7.2-Beta"], ["compose", "6Server"], ["", "21_Alpha", "rawhide"]] + \
        ([["", "1.0", "2.0"], ["compose", "1.0", "2.0"]] if big else [])          # legacy sub-directories are named after versions of every spelling
    for accessor in FILES:
        for li, locs in enumerate(loc_sets):
            for ts in ((False, True) if big or (li + seed) % 2 == 0 else (bool(li % 2),)):
                out.append({"harness": "resolve", "params": {"accessor": accessor, "trailing_slash": ts, "locs": locs, "bad": None}})
        # undecodable content at the place that wins / loses
        for loc in ("compose", ""):
            for bi, name in enumerate(FILES[accessor]):
                out.append({"harness": "resolve", "params": {"accessor": accessor, "trailing_slash": bool(bi), "locs": ["", "compose"],
                                                            "bad": [loc, name, (bi + len(loc)) % 2]}})
    # the opened directory is itself called like one of the names the prober looks for
    for ri, root_name in enumerate(["compose", "metadata", "1.0", "compose.old"]):
        for li, locs in enumerate(loc_sets[:4]):
            if big or (ri + li + seed) % 2 == 0 or root_name == "compose":
                out.append({"harness": "resolve", "params": {"accessor": list(FILES)[(ri + li) % 4], "trailing_slash": bool((ri + li) % 2), "locs": locs, "bad": None,
                                                            "root_name": root_name}})
    # remote locations (urlopen): the compose/ layout and the direct layout; no legacy scan over HTTP
    for ai, accessor in enumerate(FILES):
        out.append({"harness": "resolve", "params": {"accessor": accessor, "trailing_slash": bool(ai % 2), "locs": ["", "compose"], "bad": None, "remote": True}})
    out.append({"harness": "resolve", "params": {"accessor": "images", "trailing_slash": False, "locs": ["", "compose"], "bad": ["compose", "images.json", 0], "remote": True}})
    # the stored files change between two objects opened in one process
    for ai, accessor in enumerate(FILES):
        for remote in (False, True):
            if big or (ai + remote + seed) % 2 == 0 or accessor == "images":
                out.append({"harness": "resolve_after_change", "params": {"accessor": accessor, "remote": remote, "dirs_fixed": not big}})
    for first, second in (("images", "rpms"), ("rpms", "images"), ("images", "modules"), ("rpms", "info"), ("modules", "rpms")):
        for loc in ("", "compose"):
            out.append({"harness": "resolve_pair", "params": {"first": first, "second": second, "loc": loc}})
    for j in out:
        j["env_nondet"] = True        # the real listdir order is one of the orders explored symbolically
    return out


META = {
    "expected_covers": {"resolve_after_change": ["opened", "accessed"], "resolve": ["opened", "accessed"], "resolve_pair": ["opened", "accessed"]},
    "assumptions": [
        "symbolic file system (psx/stubs.py SymFS): a finite universe of candidate paths (the compose directory, its 'compose' and legacy subdirectories, their "
        "metadata directories and every current/legacy file name of the accessor), one existence bit per path constrained only by 'a path exists only if its parent does'; "
        "listdir returns the existing children in every order",
        "the opened directory's own name is 'root' or one of 'compose', 'metadata', '1.0', 'compose.old' (names the prober itself looks for)",
        "every second manifest file (images / rpms / modules) is one without entries",
        "files hold distinct concrete valid documents written by the real writers (or an undecodable / foreign-type one where stated)",
        "where the property is silent (a direct metadata/ next to a legacy subdirectory, several legacy subdirectories) any candidate location is accepted",
        "remote locations: urlopen is answered from the same symbolic file system (200 with the content if the path exists, 404 otherwise; contract in psx/stubs.py); "
        "natively the tree is served by http.server on the loopback interface; FTP and TLS specifics are outside the claim",
        "resolve_after_change: a second arbitrary layout over the same candidate paths replaces the first between two Compose objects of one process",
    ],
}
