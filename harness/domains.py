"""Documented field domains D_f, written once and independently of the validators (used by C06, C07, C18).

in_domain(sym, rule, kind, value) -> bool / symbolic bool, or None where the documentation is silent
(the value is then placed on neither side).  `kind` is the Python kind of the value:
none, bool, int, float, str, list, dict.
"""
from productmd.common import RELEASE_TYPES
from productmd.composeinfo import COMPOSE_TYPES, LABEL_NAMES, VARIANT_TYPES
from productmd.images import SUPPORTED_IMAGE_TYPES, SUPPORTED_IMAGE_FORMATS
import productmd.treeinfo

KINDS = ["none", "bool", "int", "float", "str", "list", "dict"]
# kinds an attribute of an object can also have (no JSON document can contain them): never inside any documented domain
OBJECT_KINDS = KINDS + ["set", "tuple", "bytes"]


# rules whose documented pattern says "digit" with \d: whether a non-ASCII decimal digit counts is a documentation-silent corner
DIGIT_SILENT = ("compose-id", "date", "label", "tree-version")


def make_value(sym, kind, name, maxlen, rule=None):
    if kind == "none":
        return None
    if kind == "bool":
        return sym.bool(name)
    if kind == "int":
        return sym.int(name)
    if kind == "float":
        return [0.5, -1.25, 1e300][len(name) % 3]
    if kind == "str":
        s = sym.str(name, maxlen)
        # where the documentation is silent: non-ASCII decimal digits in \d-patterns, and newlines (a '$' before a final newline)
        if rule is None or rule in DIGIT_SILENT:
            sym.assume(sym.chars_in(s, "ascii"))
        sym.assume(sym.no_char(s, "\n"))
        return s
    if kind == "set":
        return set(["Client", "Server"])
    if kind == "tuple":
        return ("Client",)
    if kind == "bytes":
        return b"Client"
    if kind == "list":
        return [["x"], []][len(name) % 2]
    if kind == "dict":
        return [{"a": "b"}, {}][len(name) % 2]
    raise ValueError(kind)


def numeric_version(sym, s):
    return sym.and_(len(s) >= 1, sym.chars_in(s, ["0-9", "."]), sym.not_(".." in s), sym.not_(s.startswith(".")), sym.not_(s.endswith(".")))


def release_version(sym, s):
    return sym.and_(len(s) >= 1, sym.or_(sym.not_(sym.char_at_in(s, 0, ["0-9"])), numeric_version(sym, s)))


def label_ok(sym, s):
    alts = []
    for n in LABEL_NAMES:
        k = len(n) + 1
        rest = s[k:]
        pair = sym.and_(sym.chars_in(rest, ["0-9", "."]), rest.count(".") == 1, sym.not_(rest.startswith(".")), sym.not_(rest.endswith(".")), len(rest) >= 3)
        alts.append(sym.and_(s.startswith(n + "-"), pair))
    return sym.or_(*alts)


def in_domain(sym, rule, kind, v):
    """rule names follow the documentation of each field"""
    if rule == "any":
        return True
    if rule == "str":
        return kind == "str"
    if rule == "text-or-none":
        # a text field that may be left unset: None is "unset" (what a writer does with it is its own business), anything else must be text
        if kind == "none":
            return None
        return kind == "str"
    if rule == "str-nonblank":
        return kind == "str" and len(v) >= 1
    if rule == "bool":
        return kind == "bool"
    if rule == "int":
        if kind == "bool":
            return None            # a bool is an int in Python; the documentation does not say
        return kind == "int"
    if rule in ("int-nonzero", "number-nonzero"):
        # zero is refused by the writers (a 'blank' test) although no document says so: neither side
        if kind == "bool":
            return None
        if kind == "int":
            sym.assume(v != 0)
            return True
        if kind == "float":
            return rule == "number-nonzero"
        return False
    if rule == "int-or-none":
        if kind == "bool":
            return None
        return kind in ("int", "none")
    if rule == "date":
        return kind == "str" and sym.and_(len(v) == 8, sym.chars_in(v, "digits"))
    if rule == "compose-id":
        return kind == "str" and sym.and_(len(v) >= 1, sym.has_digit_run(v, 8))
    if rule == "compose-type":
        return kind == "str" and v in COMPOSE_TYPES
    if rule == "release-type":
        return kind == "str" and v in RELEASE_TYPES
    if rule == "variant-type":
        return kind == "str" and v in VARIANT_TYPES
    if rule == "tree-variant-type":
        return kind == "str" and v in productmd.treeinfo.VARIANT_TYPES
    if rule == "image-type":
        return kind == "str" and v in SUPPORTED_IMAGE_TYPES
    if rule == "image-format":
        return kind == "str" and v in SUPPORTED_IMAGE_FORMATS
    if rule == "label":
        if kind == "none":
            return True
        return kind == "str" and label_ok(sym, v)
    if rule == "release-version":
        return kind == "str" and release_version(sym, v)
    if rule == "tree-version":
        # treeinfo: a version starting with a digit must be dot separated integers, anything else goes
        return kind == "str" and sym.or_(sym.not_(sym.char_at_in(v, 0, ["0-9"])), numeric_version(sym, v))
    if rule == "variant-id":
        return kind == "str" and sym.and_(len(v) >= 1, sym.chars_in(v, "alnum"))
    if rule == "tree-variant-id":
        return kind == "str" and sym.not_("-" in v)
    if rule == "none-or-str-nonblank":
        if kind == "none":
            return True
        return kind == "str" and len(v) >= 1
    if rule == "implant-md5":
        if kind == "none":
            return True
        return kind == "str" and sym.and_(len(v) == 32, sym.chars_in(v, ["a-z", "0-9"]))
    if rule == "checksums":
        return kind == "dict" and len(v) > 0
    if rule == "list":
        return kind == "list"
    if rule == "relative-path":
        if kind == "none":
            return None
        return kind == "str" and sym.not_(v.startswith("/"))
    if rule == "float-nonzero":
        return kind == "float"
    if rule == "nonblank-list":
        return kind == "list" and len(v) > 0
    raise ValueError("unknown rule " + rule)
