"""C08 - serialisation is canonical: the output depends on the content only."""
import json

from productmd.composeinfo import ComposeInfo, Variant
from productmd.images import Images, Image
from productmd.rpms import Rpms
from productmd.modules import Modules
from productmd.extra_files import ExtraFiles

PROPERTY = "C08"

PERMS2 = [[0, 1], [1, 0]]
PERMS3 = [[0, 1, 2], [0, 2, 1], [1, 0, 2], [1, 2, 0], [2, 0, 1], [2, 1, 0]]


def canonical_json(sym, text):
    """object keys sorted, 4-space indentation, ',' and ': ' separators"""
    return json.dumps(json.loads(text), indent=4, sort_keys=True, separators=(",", ": ")) == text


def fill_compose(m):
    m.compose.id = "Fedora-20-20131212.0"
    m.compose.type = "production"
    m.compose.date = "20131212"
    m.compose.respin = 0


# ---------------------------------------------------------------------------------------------------

def build_composeinfo(content, order, arch_order, path_order):
    ci = ComposeInfo()
    ci.release.name = content["r_name"]
    ci.release.short = "f"
    ci.release.version = "20"
    ci.release.type = "ga"
    fill_compose(ci)
    spec = content["spec"]
    objs = {}
    pending = [spec[i] for i in order]
    # parents must exist before their children; within that constraint the order is the given permutation
    while pending:
        rest = []
        for vid, uid, parent, arches in pending:
            if parent is not None and parent not in objs:
                rest.append((vid, uid, parent, arches))
                continue
            v = Variant(ci)
            v.id = vid
            v.uid = uid
            v.name = content["name_" + uid]
            v.type = "variant"
            a = list(arches)
            if arch_order:
                a.reverse()
            v.arches = set()
            for x in a:
                v.arches.add(x)
            fields = content["paths_" + uid]
            if path_order:
                fields = list(reversed(fields))
            for field, arch, value in fields:
                getattr(v.paths, field)[arch] = value
            objs[uid] = v
            if parent is None:
                ci.variants.add(v)
            else:
                objs[parent].add(v)
        pending = rest
    return ci


CI_SPEC = [("Server", "Server", None, ["x86_64", "s390x"]), ("Client", "Client", None, ["x86_64", "aarch64"]),
           ("HA", "Server-HA", "Server", ["x86_64", "s390x"]), ("optional", "Server-optional", "Server", ["x86_64"])]


def composeinfo_canonical(sym, perm, arch_order, path_order, dumps):
    sym.option("set_order", "nondet")
    content = {"r_name": sym.str("r_name", 3), "spec": CI_SPEC}
    for vid, uid, parent, arches in CI_SPEC:
        content["name_" + uid] = sym.str("name_" + uid.replace("-", "_"), 2, minlen=1)
        content["paths_" + uid] = [("os_tree", arches[0], sym.str("p1_" + vid, 2, minlen=1)), ("packages", arches[-1], sym.str("p2_" + vid, 2, minlen=1)),
                                   ("repository", arches[-1], "tree/" + vid)]
    ref = build_composeinfo(content, [0, 1, 2, 3], False, False)
    reference = ref.dumps()
    other = build_composeinfo(content, perm, arch_order, path_order)
    sym.cover("built")
    texts = [other.dumps() for _ in range(dumps)]
    for i, t in enumerate(texts):
        sym.check("same-bytes-as-reference-order[dump %d]" % i, t == reference)
    sym.check("sorted-keys-indent-4", canonical_json(sym, texts[0]))


ED_SPEC_A = [("Server", "Server", None, ["x86_64", "s390x"]), ("Client", "Client", None, ["x86_64", "i386"]),
             ("HA", "Server-HA", "Server", ["x86_64", "s390x"]), ("optional", "Server-optional", "Server", ["x86_64"])]
# the same forest after the edit: one arch exchanged for another in two sets (the sizes stay the same), one set grown
ED_SPEC_B = [("Server", "Server", None, ["x86_64", "ppc64le"]), ("Client", "Client", None, ["aarch64", "x86_64"]),
             ("HA", "Server-HA", "Server", ["ppc64le", "x86_64"]), ("optional", "Server-optional", "Server", ["x86_64", "ppc64le"])]


def composeinfo_edited(sym, primed_by, how):
    """an object that was already dumped (or was loaded from a file) is edited and dumped again: the bytes are those of a
    fresh object with the same final content - nothing remembered from the earlier dump/load may show"""
    def content(spec, tag):
        c = {"r_name": sym.str("r_name" + tag, 3), "spec": spec}
        for vid, uid, parent, arches in spec:
            c["name_" + uid] = sym.str("name%s_%s" % (tag, uid.replace("-", "_")), 2, minlen=1)
            c["paths_" + uid] = [("os_tree", a, sym.str("p%s_%s_%s" % (tag, vid, a), 2, minlen=1)) for a in arches] + [("repository", arches[-1], "tree/" + vid)]
        return c
    a, b = content(ED_SPEC_A, "A"), content(ED_SPEC_B, "B")
    obj = build_composeinfo(a, [0, 1, 2, 3], False, False)
    first = obj.dumps()
    if primed_by == "load":
        obj = ComposeInfo()
        obj.loads(first)
    sym.cover("primed")
    # ---- the edit: parents first (a child's arches must stay inside its parent's)
    obj.release.name = b["r_name"]
    for vid, uid, parent, arches in ED_SPEC_B:
        v = obj.get_variants(recursive=True)
        v = [x for x in v if x.uid == uid][0]
        old = [x for x in ED_SPEC_A if x[1] == uid][0][3]
        if how == "in-place":
            for x in old:
                if x not in arches:
                    v.arches.discard(x)
            for x in arches:
                v.arches.add(x)
        else:
            v.arches = set(arches)
        v.name = b["name_" + uid]
        for x in old:
            v.paths.os_tree.pop(x, None)
            v.paths.repository.pop(x, None)
        for field, arch, value in b["paths_" + uid]:
            getattr(v.paths, field)[arch] = value
    again = obj.dumps()
    sym.cover("built")
    fresh = build_composeinfo(b, [0, 1, 2, 3], False, False).dumps()
    sym.check("edited-object-writes-what-a-fresh-object-writes", again == fresh)
    sym.check("and-again", obj.dumps() == fresh)


def images_edited(sym, primed_by):
    """images added / removed after a dump (or after a load) are written like a freshly built manifest"""
    paths = [sym.str("path%d" % i, 2, minlen=1) for i in range(3)]
    sums = [sym.str("sum%d" % i, 2) for i in range(3)]
    for i in range(3):
        for j in range(i + 1, 3):
            sym.assume(paths[i] != paths[j])

    def build(which):
        im = Images()
        fill_compose(im)
        for i in which:
            im.add("Server", "x86_64", make_image(im, paths[i], i, sums[i]))
        im.add("Client", "x86_64", make_image(im, "other/1", 8, "x"))
        return im
    obj = build([0, 1])
    first = obj.dumps()
    if primed_by == "load":
        obj = Images()
        obj.loads(first)
    sym.cover("primed")
    obj.add("Server", "x86_64", make_image(obj, paths[2], 2, sums[2]))
    obj.compose.respin = 3
    again = obj.dumps()
    sym.cover("built")
    ref = build([0, 1, 2])
    ref.compose.respin = 3
    fresh = ref.dumps()
    sym.check("edited-object-writes-what-a-fresh-object-writes", again == fresh)
    sym.check("and-again", obj.dumps() == fresh)


def treeinfo_edited(sym, primed_by, arch_edit=False):
    """a tree is dumped (or loaded), then its variants, platforms, images and checksums change
    arch_edit: the tree's own arch changes as well (it is not listed among the platforms explicitly; the images belong to another platform)"""
    import productmd.treeinfo as T
    text = [(33, 36), (38, 126)]
    names = [sym.str("vname%d" % i, 2, minlen=1, alphabet=text) for i in range(3)]
    img = [sym.str("img%d" % i, 2, minlen=1, alphabet=[(97, 122)]) for i in range(2)]
    cs = [sym.str("sum%d" % i, 2, minlen=1, alphabet="hexlower") for i in range(2)]
    plat = "xen" if arch_edit else "x86_64"

    def build(stage):
        ti = T.TreeInfo()
        ti.release.name = "Fedora"
        ti.release.short = "F"
        ti.release.version = "21"
        ti.tree.arch = "x86_64"
        ti.tree.build_timestamp = 1417653453
        ti.tree.platforms = set(["xen", "lpae"]) if arch_edit else set(["x86_64", "xen"])
        v = T.Variant(ti)
        v.id, v.uid, v.name, v.type = "Server", "Server", names[0], "variant"
        v.paths.packages = "Server/Packages"
        ti.variants.add(v)
        ti.images.images[plat] = {"boot.iso": img[0]}
        ti.checksums.add("images/boot.iso", "sha256", cs[0])
        if stage == "B":
            if arch_edit and primed_by == "load":
                ti.tree.platforms.add("x86_64")          # a loaded tree lists its (then) own arch among the platforms: that is content from then on
            edit(ti)
        return ti

    def edit(ti):
        if arch_edit:
            ti.tree.arch = "aarch64"
        ti.tree.platforms.discard("lpae" if arch_edit else "xen")
        ti.tree.platforms.add("ppc64le")          # same size, other content
        ti.variants["Server"].name = names[1]
        w = T.Variant(ti)
        w.id, w.uid, w.name, w.type = "Client", "Client", names[2], "variant"
        w.paths.packages = "Client/Packages"
        ti.variants.add(w)
        del ti.images.images[plat]["boot.iso"]
        ti.images.images[plat]["kernel"] = img[1]
        ti.checksums.checksums.pop("images/boot.iso")
        ti.checksums.add("images/efiboot.img", "sha256", cs[1])
    obj = build("A")
    first = obj.dumps()
    if primed_by == "load":
        obj = T.TreeInfo()
        obj.loads(first)
    sym.cover("primed")
    edit(obj)
    again = obj.dumps()
    sym.cover("built")
    fresh = build("B").dumps()
    sym.check("edited-object-writes-what-a-fresh-object-writes", again == fresh)
    sym.check("and-again", obj.dumps() == fresh)


# ---------------------------------------------------------------------------------------------------

def make_image(im, path, i, checksum):
    img = Image(im)
    img.path = path
    img.mtime = 10 + i
    img.size = 100 + i
    img.volume_id = None
    img.type = "dvd"
    img.format = "iso"
    img.arch = "x86_64"
    img.disc_number = 1 + i
    img.disc_count = 3
    img.checksums = {"sha256": checksum}
    img.implant_md5 = None
    img.bootable = False
    img.subvariant = "sub%d" % i
    return img


def images_canonical(sym, n, perm, cell_perm, dumps, same_identity=False):
    """images of a cell added in any order, cells created in any order, sets iterated in any order
    same_identity: the images of the cell are one image under several paths (equal identity, equal checksums): each is content"""
    sym.option("set_order", "nondet")
    paths = [sym.str("path%d" % i, 2, minlen=1) for i in range(n)]
    sums = [sym.str("sum%d" % i, 2) for i in range(n)]
    for i in range(n):
        for j in range(i + 1, n):
            sym.assume(paths[i] != paths[j])
    cells = [("Server", "x86_64"), ("Client", "x86_64"), ("Server", "aarch64")]

    def build(order, cell_order):
        im = Images()
        fill_compose(im)
        for c in cell_order:
            variant, arch = cells[c]
            if c == 0:
                for i in order:
                    im.add(variant, arch, make_image(im, paths[i], 0 if same_identity else i, sums[0] if same_identity else sums[i]))
            else:
                im.add(variant, arch, make_image(im, "other/%d" % c, 7 + c, "x"))
        return im
    reference = build(list(range(n)), [0, 1, 2]).dumps()
    other = build(perm, cell_perm)
    sym.cover("built")
    texts = [other.dumps() for _ in range(dumps)]
    for i, t in enumerate(texts):
        sym.check("same-bytes-as-reference-order[dump %d]" % i, t == reference)
    sym.check("sorted-keys-indent-4", canonical_json(sym, texts[0]))


def images_caller_lists(sym, other_first):
    """caller-ordered lists are content: the additional variants of a unified image are written in the caller's order, whatever
    else the manifest holds and whatever was added before or after"""
    im = Images()
    fill_compose(im)
    uni = make_image(im, sym.str("path0", 2, minlen=1), 0, sym.str("sum0", 2))
    uni.unified = True
    uni.additional_variants = ["Workstation", "Client", "Server"]          # not in sorted order
    other = make_image(im, sym.str("path1", 2, minlen=1), 1, sym.str("sum1", 2))
    sym.assume(uni.path != other.path)
    try:
        if other_first:
            im.add("Everything", "x86_64", other)
        for variant in ("Everything", "Client"):
            im.add(variant, "x86_64", uni)
        if not other_first:
            im.add("Everything", "x86_64", other)
        text = im.dumps()
    except ValueError:
        return
    sym.cover("built")
    doc = json.loads(text)
    for variant in ("Everything", "Client"):
        for entry in doc["payload"]["images"][variant]["x86_64"]:
            if entry.get("unified"):
                sym.check("additional-variants-in-the-callers-order[%s]" % variant, entry["additional_variants"] == ["Workstation", "Client", "Server"])
    sym.check("callers-list-untouched", uni.additional_variants == ["Workstation", "Client", "Server"])
    sym.check("second-dump-identical", im.dumps() == text)


# ---------------------------------------------------------------------------------------------------

RPM_CALLS = [
    ("Server", "x86_64", "glibc-0:2.18-11.fc20.x86_64", "binary", "glibc-0:2.18-11.fc20.src"),
    ("Server", "x86_64", "glibc-0:2.18-11.fc20.src", "source", None),
    ("Client", "x86_64", "bash-0:4.2-1.fc20.x86_64", "binary", "bash-0:4.2-1.fc20.src"),
]


def rpms_canonical(sym, perm, dumps):
    paths = [sym.str("path%d" % i, 2, minlen=1) for i in range(3)]
    keys = [sym.str("sig%d" % i, 2, alphabet="hexlower") for i in range(3)]

    def build(order):
        m = Rpms()
        fill_compose(m)
        for i in order:
            variant, arch, nevra, cat, srpm = RPM_CALLS[i]
            m.add(variant, arch, nevra, paths[i], keys[i], cat, srpm)
        return m
    try:
        reference = build([0, 1, 2]).dumps()
        other = build(perm)
    except ValueError:
        return
    sym.cover("built")
    texts = [other.dumps() for _ in range(dumps)]
    for i, t in enumerate(texts):
        sym.check("same-bytes-as-reference-order[dump %d]" % i, t == reference)
    sym.check("sorted-keys-indent-4", canonical_json(sym, texts[0]))


def modules_canonical(sym, perm, dumps):
    tags = [sym.str("tag%d" % i, 2, minlen=1) for i in range(3)]
    calls = [("Server", "x86_64", "ruby:2.5:1:c0ffee", "binary"), ("Server", "x86_64", "perl:5.26", "binary"), ("Client", "s390x", "ruby:2.5:1:c0ffee", "binary")]

    def build(order):
        m = Modules()
        fill_compose(m)
        for i in order:
            variant, arch, uid, cat = calls[i]
            m.add(variant, arch, uid, tags[i], "repodata/m%d.yaml" % i, cat, ["r1-0:1-1.noarch", "a0-0:1-1.noarch"])
        return m
    reference = build([0, 1, 2]).dumps()
    other = build(perm)
    sym.cover("built")
    texts = [other.dumps() for _ in range(dumps)]
    for i, t in enumerate(texts):
        sym.check("same-bytes-as-reference-order[dump %d]" % i, t == reference)
    doc = json.loads(texts[0])
    sym.check("caller-ordered-rpm-list-kept", doc["payload"]["modules"]["Server"]["x86_64"]["perl:5.26"]["rpms"] == ["r1-0:1-1.noarch", "a0-0:1-1.noarch"])
    sym.check("sorted-keys-indent-4", canonical_json(sym, texts[0]))


def extra_canonical(sym, perm, dumps):
    files = [sym.str("file%d" % i, 2, minlen=1) for i in range(3)]
    for f in files:
        sym.assume(sym.not_(f.startswith("/")))
    cells = [("Server", "x86_64"), ("Client", "x86_64"), ("Server", "s390x")]

    def build(order):
        m = ExtraFiles()
        fill_compose(m)
        for c in order:
            variant, arch = cells[c]
            # entries of one cell are a caller-ordered list: their order is content and stays fixed
            m.add(variant, arch, files[c], 10 + c, {"sha256": "ab", "md5": "cd"} if c % 2 else {"md5": "cd", "sha256": "ab"})
            m.add(variant, arch, "zz" + str(c), 1, {"md5": "0"})
        return m
    reference = build([0, 1, 2]).dumps()
    other = build(perm)
    sym.cover("built")
    texts = [other.dumps() for _ in range(dumps)]
    for i, t in enumerate(texts):
        sym.check("same-bytes-as-reference-order[dump %d]" % i, t == reference)
    doc = json.loads(texts[0])
    sym.check("caller-ordered-entries-kept", [e["file"] for e in doc["payload"]["extra_files"]["Server"]["x86_64"]] == [files[0], "zz0"])
    sym.check("sorted-keys-indent-4", canonical_json(sym, texts[0]))


def treeinfo_canonical(sym, vperm, iperm, cperm, dumps, name_set=0):
    """variants, image tables, platforms and checksums added in any order; sections and options come out sorted"""
    import configparser
    import productmd.treeinfo as T
    sym.option("set_order", "nondet")
    text = [(33, 36), (38, 126)]
    names = [sym.str("vname%d" % i, 2, minlen=1, alphabet=text) for i in range(3)]
    imgs = [sym.str("img%d" % i, 2, minlen=1, alphabet=[(97, 122)]) for i in range(3)]
    sums = [sym.str("sum%d" % i, 2, minlen=1, alphabet="hexlower") for i in range(3)]
    vspec = [("Server", "Server", None, "variant"), ("Client", "Client", None, "variant"), ("HA", "Server-HA", "Server", "addon")]
    if name_set == 3:
        # two top-level variants that share their id and differ in their UID (the optional trees of two base variants), filed by UID
        vspec = [("optional", "Server-optional", None, "optional"), ("optional", "Client-optional", None, "optional"), ("Server", "Server", None, "variant")]
    # names whose plain string order differs from "natural" orders: digit runs of different width, zero padding, upper/lower case
    ispec = [[("x86_64", "boot.iso"), ("x86_64", "Kernel"), ("xen", "kernel")], [("x86_64", "initrd7"), ("x86_64", "initrd07"), ("x86_64", "initrd10")],
             [("x86_64", "boot.iso"), ("x86_64", "Kernel"), ("xen", "kernel")], [("x86_64", "boot.iso"), ("x86_64", "Kernel"), ("xen", "kernel")]][name_set]
    cspec = [["images/boot.iso", "Images/efiboot.img", "LiveOS/squashfs.img"], ["images/disc2.iso", "images/disc10.iso", "images/disc02.iso"],
             ["images/boot.iso", "./images/boot.iso", "images//boot.iso"], ["images/boot.iso", "Images/efiboot.img", "LiveOS/squashfs.img"]][name_set]          # 2: three spellings of one path

    def build(vo, io_, co, platforms):
        ti = T.TreeInfo()
        ti.release.name = "Fedora"
        ti.release.short = "F"
        ti.release.version = "21"
        ti.tree.arch = "x86_64"
        ti.tree.build_timestamp = 1417653453
        ti.tree.platforms = set()
        for pl in platforms:
            ti.tree.platforms.add(pl)
        objs = {}
        pending = [vspec[i] + (names[i],) for i in vo]
        while pending:
            rest = []
            for vid, uid, parent, typ, name in pending:
                if parent is not None and parent not in objs:
                    rest.append((vid, uid, parent, typ, name))
                    continue
                v = T.Variant(ti)
                v.id, v.uid, v.name, v.type = vid, uid, name, typ
                v.paths.packages = uid + "/Packages"
                objs[uid] = v
                if parent is None:
                    if vid != uid:
                        ti.variants.add(v, variant_id=uid)
                    else:
                        ti.variants.add(v)
                else:
                    objs[parent].add(v)
            pending = rest
        for i in io_:
            platform, name = ispec[i]
            ti.images.images.setdefault(platform, {})[name] = imgs[i]
        for i in co:
            if name_set == 2:
                ti.checksums.checksums[cspec[i]] = ["sha256", sums[i]]          # the public table, filled directly: keys are kept as spelled
            else:
                ti.checksums.add(cspec[i], "sha256", sums[i])
        return ti
    reference = build([0, 1, 2], [0, 1, 2], [0, 1, 2], ["x86_64", "xen", "ppc64le"]).dumps()
    other = build(vperm, iperm, cperm, ["ppc64le", "xen", "x86_64"])
    sym.cover("built")
    texts = [other.dumps() for _ in range(dumps)]
    for i, t in enumerate(texts):
        sym.check("same-bytes-as-reference-order[dump %d]" % i, t == reference)
    # sections and options sorted, as seen by a plain order-preserving reader
    p = configparser.ConfigParser(interpolation=None)
    p.optionxform = str
    p.read_string(texts[0])
    sections = p.sections()
    sym.check("sections-sorted", sections == sorted(sections))
    for sec in sections:
        opts = [k for k, v in p.items(sec)]
        sym.check("options-sorted[%s]" % sec, opts == sorted(opts))


def jobs(tier, seed):
    big = tier == "thorough"
    out = []
    import itertools
    perms4 = list(itertools.permutations(range(4)))
    sel = perms4 if big else [perms4[(seed * 5 + i * 7) % 24] for i in range(4)]
    for pi, p in enumerate(sel):
        out.append({"harness": "composeinfo_canonical", "params": {"perm": list(p), "arch_order": bool(pi % 2), "path_order": bool((pi // 2) % 2), "dumps": 2 + pi % 2}})
    for n, perms in ((2, PERMS2), (3, PERMS3 if big else [PERMS3[(seed + 3) % 6], PERMS3[(seed + 4) % 6]])):
        for pi, p in enumerate(perms):
            out.append({"harness": "images_canonical", "params": {"n": n, "perm": p, "cell_perm": PERMS3[(pi + seed) % 6], "dumps": 2}})
    # one image under two paths in one cell (equal identity, equal checksums), added in both orders
    out.append({"harness": "images_canonical", "params": {"n": 2, "perm": [1, 0], "cell_perm": [0, 1, 2], "dumps": 1, "same_identity": True}})
    for pi, p in enumerate(PERMS3):
        if big or (pi + seed) % 2 == 0:
            out.append({"harness": "rpms_canonical", "params": {"perm": p, "dumps": 2}})
            out.append({"harness": "modules_canonical", "params": {"perm": p, "dumps": 2}})
            out.append({"harness": "extra_canonical", "params": {"perm": p, "dumps": 3}})
    for pi in (range(6) if big else [(seed) % 6, (seed + 3) % 6]):
        out.append({"harness": "treeinfo_canonical", "params": {"vperm": PERMS3[pi], "iperm": PERMS3[(pi + 2) % 6], "cperm": PERMS3[(pi + 4) % 6], "dumps": 2}})
        out.append({"harness": "treeinfo_canonical", "params": {"vperm": PERMS3[pi], "iperm": PERMS3[(pi + 1) % 6], "cperm": PERMS3[(pi + 3) % 6], "dumps": 2, "name_set": 1}})
        out.append({"harness": "treeinfo_canonical", "params": {"vperm": PERMS3[pi], "iperm": PERMS3[(pi + 1) % 6], "cperm": PERMS3[(pi + 5) % 6], "dumps": 2, "name_set": 2}})
        out.append({"harness": "treeinfo_canonical", "params": {"vperm": [[1, 0, 2], [2, 1, 0], [1, 2, 0]][pi % 3], "iperm": PERMS3[pi], "cperm": PERMS3[(pi + 2) % 6], "dumps": 1, "name_set": 3}})
    for other_first in (False, True):
        out.append({"harness": "images_caller_lists", "params": {"other_first": other_first}})
    for primed_by in ("dump", "load"):
        for how in ("in-place", "assign"):
            out.append({"harness": "composeinfo_edited", "params": {"primed_by": primed_by, "how": how}})
        out.append({"harness": "images_edited", "params": {"primed_by": primed_by}})
        out.append({"harness": "treeinfo_edited", "params": {"primed_by": primed_by}})
        out.append({"harness": "treeinfo_edited", "params": {"primed_by": primed_by, "arch_edit": True}})
    for j in out:
        j["replay_hashseeds"] = 12          # a set-order dependence shows natively only under some hash seeds
    return out


META = {
    "expected_covers": {"images_caller_lists": ["built"], "composeinfo_edited": ["primed", "built"], "images_edited": ["primed", "built"], "treeinfo_edited": ["primed", "built"], "treeinfo_canonical": ["built"], "composeinfo_canonical": ["built"], "images_canonical": ["built"], "rpms_canonical": ["built"], "modules_canonical": ["built"],
                        "extra_canonical": ["built"]},
    "assumptions": [
        "content symbolic (names, paths, checksums, tags), the construction order a permutation given per job (all 24/6 in the thorough tier), "
        "every Python set iterated in every order inside the interpreter (option set_order=nondet: n! branches per set) - this subsumes every PYTHONHASHSEED",
        "dict iteration follows insertion order (Python >= 3.7 language guarantee), which the permuted construction orders exercise",
        "each object is dumped 2-3 times; every dump must equal the dump of the reference construction order",
        "edited objects: a composeinfo / images / treeinfo object that was dumped, or loaded from its own dump, is then edited through the public attributes "
        "(arch sets exchanged in place or by assignment keeping their size, names, paths, images, platforms, checksums, variants added) and must write exactly what a freshly built object of the final content writes",
        "JSON text layer replaced by the DocText stub: two texts are equal iff normalised formatting arguments and ordered skeletons are equal",
        "treeinfo: variants, image tables, platform set and checksums built in permuted orders; the written text is also read by a plain order-preserving "
        "ConfigParser to check that sections and options are ascending",
    ],
}
