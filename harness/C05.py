"""C05 - older format versions are upgraded faithfully and idempotently."""
import glob
import io
import json
import os

from productmd.composeinfo import ComposeInfo, COMPOSE_TYPES
from productmd.images import Images
from productmd.rpms import Rpms
from productmd.treeinfo import TreeInfo
from productmd.common import SortedConfigParser, RELEASE_TYPES
import domains
import C10

PROPERTY = "C05"

# rpms <= 0.3 ('manifest' payload with a src arch): the conversion harness is shared with C10
rpms_03 = C10.rpms_old_src
images_1x_src = C10.images_old_src

REPO = os.path.dirname(os.path.dirname(os.path.abspath(ComposeInfo.__module__ and __import__("productmd").__file__)))
PATH_FIELDS = ["os_tree", "packages", "repository", "isos", "images", "jigdos", "source_tree", "source_packages",
               "source_repository", "source_isos", "source_jigdos", "debug_tree", "debug_packages", "debug_repository"]
SUFFIX = {"production": "", "nightly": ".n", "test": ".t", "ci": ".ci", "development": ".d"}


# ---------------------------------------------------------------------------------------------------
# composeinfo

def ci_facts(ci):
    """every documented fact of a loaded ComposeInfo as plain comparable data"""
    out = {"release": [ci.release.name, ci.release.short, ci.release.version, ci.release.type, ci.release.is_layered, ci.release.internal],
           "compose": [ci.compose.id, ci.compose.type, ci.compose.date, ci.compose.respin, ci.compose.label, ci.compose.final]}
    if ci.release.is_layered:
        out["base_product"] = [ci.base_product.name, ci.base_product.short, ci.base_product.version, ci.base_product.type]
    variants = {}

    def walk(container, parent):
        for key in sorted(container.variants):
            v = container.variants[key]
            paths = {}
            for f in PATH_FIELDS:
                m = getattr(v.paths, f)
                if m:
                    paths[f] = dict(m)
            variants[v.uid] = [v.id, v.name, v.type, sorted(v.arches), parent, sorted(v.variants.keys()), paths]
            walk(v, v.uid)
    walk(ci.variants, None)
    out["variants"] = variants
    return out


FOREST = [("Server", "Server", None, ["x86_64", "s390x"]), ("optional", "Server-optional", "Server", ["x86_64"]),
          ("HA", "Server-HA", "Server", ["x86_64", "s390x"]), ("Client", "Client", None, ["x86_64"])]


def composeinfo_old(sym, layout, ctype, layered, with_label, stale=False):
    """a composeinfo document of an older layout is loaded as the same facts and re-written as a current document.
    stale: a pre-0.3 document also carries type/date/respin fields that disagree with its id - before 0.3 the id is what counts"""
    if layout == "0.0-0.2":
        major, minor = 0, sym.int("minor", 0, 2)
    elif layout == "0.3":
        major, minor = 0, 3
    elif layout == "0.4-0.9":
        major, minor = 0, sym.int("minor", 4, 9)
    else:
        major, minor = 1, sym.int("minor", 0, 2)
    r_name = sym.str("r_name", 3)
    r_short = sym.str("r_short", 3)
    r_version = sym.str("r_version", 4, alphabet="printable")
    sym.assume(domains.release_version(sym, r_version))
    r_type = sym.one_of("r_type", RELEASE_TYPES)
    date = sym.str("date", 8, minlen=8, alphabet="digits")
    respin = sym.int("respin", 0, 9999)
    if layout == "0.0-0.2":
        # the product version inside the id may itself contain long digit runs (a date-versioned product)
        cid = "Prod-" + sym.str("id_version", 9, minlen=1, alphabet=["0-9", "."]) + "-" + date + SUFFIX[ctype] + "." + str(respin)
        compose = {"id": cid, "type": ctype}
        if stale:
            compose["type"] = sym.one_of("stale_type", COMPOSE_TYPES)
            compose["date"] = sym.str("stale_date", 8, minlen=8, alphabet="digits")
            compose["respin"] = sym.int("stale_respin", 0, 99)
    else:
        # from 0.3 on the fields are authoritative; the id is only an identifier and need not encode the same values
        cid = "Prod-1.0-" + sym.str("id_date", 8, minlen=8, alphabet="digits") + [".n", "", ".t"][len(ctype) % 3] + "." + str(sym.int("id_respin", 0, 99))
        compose = {"id": cid, "type": ctype}
        compose["date"] = date
        compose["respin"] = respin
    if with_label:
        compose["label"] = "RC-" + str(sym.int("l1", 0, 99)) + "." + str(sym.int("l2", 0, 99))
        compose["final"] = sym.bool("final")
    product = {"name": r_name, "short": r_short, "version": r_version, "type": r_type}
    if layered:
        product["is_layered"] = True
    payload = {"compose": compose}
    if layout in ("0.0-0.2", "0.3"):
        payload["product"] = product
    else:
        payload["release"] = product
        if layout == "1.x":
            product["internal"] = sym.bool("internal")
    if layered:
        bp_version = sym.str("bp_version", 3, alphabet="printable")
        sym.assume(domains.release_version(sym, bp_version))
        payload["base_product"] = {"name": sym.str("bp_name", 3), "short": sym.str("bp_short", 3), "version": bp_version}
        if layout == "1.x":
            payload["base_product"]["type"] = sym.one_of("bp_type", RELEASE_TYPES)
    variants = {}
    expect_variants = {}
    for vid, uid, parent, arches in FOREST:
        name = sym.str("name_" + uid.replace("-", "_"), 2, minlen=1)
        p1 = sym.str("p_" + uid.replace("-", "_"), 2, minlen=1)
        entry = {"id": vid, "uid": uid, "name": name, "type": "optional" if vid == "optional" else "variant", "arches": list(arches),
                 "paths": {"os_tree": {arches[0]: p1}, "packages": {"mips": "not/for/this/variant"}}}
        if layout == "1.x":
            kids = sorted(i for i, u, par, a in FOREST if par == uid)
            if kids:
                entry["variants"] = kids
        variants[uid] = entry
        expect_variants[uid] = [vid, name, entry["type"], sorted(arches), parent, sorted(i for i, u, par, a in FOREST if par == uid), {"os_tree": {arches[0]: p1}}]
    payload["variants"] = variants
    doc = {"header": {"version": "%d.%d" % (major, minor)}, "payload": payload}
    if layout == "1.x":
        doc["header"]["type"] = "productmd.composeinfo"
    ci = ComposeInfo()
    ci.loads(json.dumps(doc))            # every field is inside its documented domain: the load must succeed
    sym.cover("loaded")
    got = ci_facts(ci)
    sym.check("release", got["release"] == [r_name, r_short, r_version, r_type, layered, product.get("internal", False)])
    sym.check("compose", got["compose"] == [cid, ctype, date, respin, compose.get("label"), compose.get("final", False)])
    if layered:
        bp = payload["base_product"]
        sym.check("base_product", got["base_product"] == [bp["name"], bp["short"], bp["version"], bp.get("type", "ga")])
    sym.check("variants", got["variants"] == expect_variants)
    text = ci.dumps()
    out = json.loads(text)
    sym.cover("rewritten")
    sym.check("written-as-current-version", out["header"] == {"version": "1.2", "type": "productmd.composeinfo"})
    sym.check("release-section-not-product", "release" in out["payload"] and "product" not in out["payload"])
    back = ComposeInfo()
    back.loads(text)
    sym.check("reload-identical", ci_facts(back) == got)
    sym.check("second-dump-identical", back.dumps() == text)


# ---------------------------------------------------------------------------------------------------
# images

def image_entry(sym, i, with_subvariant, with_format):
    d = {"path": sym.str("path%d" % i, 2, minlen=1), "mtime": sym.int("mtime%d" % i), "size": sym.int("size%d" % i, 1, None), "volume_id": None,
         "type": "dvd", "arch": "x86_64", "disc_number": 1 + i, "disc_count": 3, "checksums": {"sha256": sym.str("sha%d" % i, 2)},
         "implant_md5": None, "bootable": sym.bool("boot%d" % i)}
    if with_format:
        d["format"] = "iso"
    if with_subvariant:
        d["subvariant"] = sym.str("sv%d" % i, 2)
    return d


def images_old(sym, with_subvariant, with_format):
    major = 1
    minor = sym.int("minor", 0, 1)
    if not with_subvariant:
        sym.assume(minor == 0)
    a = image_entry(sym, 0, with_subvariant, with_format)
    b = image_entry(sym, 1, with_subvariant, with_format)
    sym.assume(a["path"] != b["path"])
    doc = {"header": {"version": "%d.%d" % (major, minor)},
           "payload": {"compose": {"id": "Fedora-20-20131212.0", "type": "production", "date": "20131212", "respin": 0},
                       "images": {"Server": {"x86_64": [a, b]}}}}
    if sym.fork("with_type"):
        doc["header"]["type"] = "productmd.images"
    else:
        sym.assume(minor == 0)              # the header type is mandatory from 1.1
    im = Images()
    im.loads(json.dumps(doc))
    sym.cover("loaded")
    cell = list(im.images["Server"]["x86_64"])
    sym.check("count", len(cell) == 2)
    for d in (a, b):
        same = [sym.and_(sym.same(g.path, d["path"]), sym.same(g.mtime, d["mtime"]), sym.same(g.size, d["size"]), sym.same(g.checksums, d["checksums"]),
                         sym.same(g.bootable, d["bootable"]), sym.same(g.subvariant, d.get("subvariant", "")), g.format == "iso",
                         g.unified == False, g.additional_variants == [])     # noqa: E712
                for g in cell]
        sym.check("image-upgraded", sym.or_(*same))
    text = im.dumps()
    out = json.loads(text)
    sym.cover("rewritten")
    sym.check("written-as-current-version", out["header"] == {"version": "1.2", "type": "productmd.images"})
    back = Images()
    back.loads(text)
    sym.check("second-dump-identical", back.dumps() == text)


def rpms_10(sym):
    minor = sym.int("minor", 0, 1)
    entry = {"path": sym.str("path", 3, minlen=1), "sigkey": sym.str("sig", 3), "category": "binary"}
    rpms = {"Server": {"x86_64": {"glibc-0:2.18-11.fc20.src": {"glibc-0:2.18-11.fc20.x86_64": entry}}}}
    doc = {"header": {"version": "1.%d" % minor, "type": "productmd.rpms"},
           "payload": {"compose": {"id": "Fedora-20-20131212.0", "type": "production", "date": "20131212", "respin": 0}, "rpms": rpms}}
    m = Rpms()
    m.loads(json.dumps(doc))
    sym.cover("loaded")
    sym.check("payload", m.rpms == rpms)
    text = m.dumps()
    out = json.loads(text)
    sym.check("written-as-current-version", out["header"] == {"version": "1.2", "type": "productmd.rpms"})
    back = Rpms()
    back.loads(text)
    sym.check("second-dump-identical", back.dumps() == text)


# ---------------------------------------------------------------------------------------------------
# treeinfo

TEXT = [(33, 36), (38, 126)]


def ti_facts(ti):
    out = {"release": [ti.release.name, ti.release.short, ti.release.version, ti.release.is_layered],
           "tree": [ti.tree.arch, ti.tree.build_timestamp, sorted(ti.tree.platforms)],
           "images": dict((p, dict(ti.images.images[p])) for p in ti.images.images),
           "stage2": [ti.stage2.mainimage, ti.stage2.instimage], "media": [ti.media.discnum, ti.media.totaldiscs],
           "checksums": dict((k, list(v)) for k, v in ti.checksums.checksums.items())}
    if ti.release.is_layered:
        out["base_product"] = [ti.base_product.name, ti.base_product.short, ti.base_product.version]
    variants = {}

    def walk(container, parent):
        for key in sorted(container.variants):
            v = container.variants[key]
            # the parent as the object itself says (its .parent attribute) - and it has to be the container it was found in
            own = v.parent.uid if v.parent is not None else None
            variants[v.uid] = [v.id, v.name, v.type, own if own == parent else "parent attribute %r, found below %r" % (own, parent), sorted(v.variants.keys()),
                               [v.paths.packages, v.paths.repository, v.paths.source_packages, v.paths.source_repository,
                                v.paths.debug_packages, v.paths.debug_repository, v.paths.identity]]
            walk(v, v.uid)
    walk(ti.variants, None)
    out["variants"] = variants
    return out


def write_parser(p):
    f = io.StringIO()
    p.write(f)
    f.seek(0)
    return f.read()


def treeinfo_old(sym, layout, arch, layered, with_addon):
    """0.3 / 1.0 / 1.1 treeinfo documents carry the same facts after load and are re-written as current documents"""
    p = SortedConfigParser()
    name = sym.str("r_name", 3, alphabet=TEXT)
    short = sym.str("r_short", 3, alphabet=TEXT)
    version = sym.str("r_version", 3, alphabet=TEXT)
    sym.assume(domains.in_domain(sym, "tree-version", "str", version))
    ts = sym.int("timestamp", -(2 ** 40), 2 ** 40)
    sym.assume(ts != 0)
    if layout == "0.3":
        p.add_section("header")
        p.set("header", "version", "0.%d" % sym.int("minor", 1, 3))
        rel = "product"
    else:
        p.add_section("header")
        minor = sym.int("minor", 0, 2)
        p.set("header", "version", "1.%d" % minor)
        if sym.fork("with_type"):
            p.set("header", "type", "productmd.treeinfo")
        else:
            sym.assume(minor == 0)
        rel = "release"
    p.add_section(rel)
    p.set(rel, "name", name)
    p.set(rel, "short", short)
    p.set(rel, "version", version)
    if layered:
        p.set(rel, "is_layered", "true")
        p.add_section("base_product")
        bp = [sym.str("bp_name", 2, alphabet=TEXT), sym.str("bp_short", 2, alphabet=TEXT), sym.str("bp_version", 2, alphabet=TEXT)]
        sym.assume(domains.in_domain(sym, "tree-version", "str", bp[2]))
        p.set("base_product", "name", bp[0])
        p.set("base_product", "short", bp[1])
        p.set("base_product", "version", bp[2])
    p.add_section("tree")
    p.set("tree", "arch", arch)
    p.set("tree", "platforms", arch + ",xen")
    p.set("tree", "build_timestamp", str(ts))
    p.set("tree", "variants", "Server")
    vname = sym.str("v_name", 2, alphabet=TEXT)
    pk = sym.str("packages", 2, minlen=1, alphabet=TEXT)
    repo = sym.str("repository", 2, minlen=1, alphabet=TEXT)
    p.add_section("variant-Server")
    p.set("variant-Server", "id", "Server")
    p.set("variant-Server", "uid", "Server")
    p.set("variant-Server", "name", vname)
    p.set("variant-Server", "type", "variant")
    p.set("variant-Server", "packages", pk)
    p.set("variant-Server", "repository", repo)
    expect_paths = [pk, repo, None, None, None, None, None]
    if layout == "0.3" and arch == "src":
        expect_paths = [None, None, pk, repo, None, None, None]      # documented mapping: a src tree's packages are source packages
    expect_variants = {"Server": ["Server", vname, "variant", None, [], expect_paths]}
    if with_addon:
        aname = sym.str("a_name", 2, alphabet=TEXT)
        p.set("variant-Server", "addons", "Server-HA")
        p.add_section("addon-Server-HA")
        p.set("addon-Server-HA", "id", "HA")
        p.set("addon-Server-HA", "uid", "Server-HA")
        p.set("addon-Server-HA", "name", aname)
        p.set("addon-Server-HA", "type", "addon")
        if layout != "0.3":
            p.set("addon-Server-HA", "parent", "Server")
        expect_variants["Server"][4] = ["HA"]
        expect_variants["Server-HA"] = ["HA", aname, "addon", "Server", [], [None] * 7]
    img = sym.str("img", 2, minlen=1, alphabet=TEXT)
    sym.assume(sym.not_(img.startswith("/")))
    p.add_section("images-" + arch)
    p.set("images-" + arch, "boot.iso", img)
    p.add_section("checksums")
    cs = sym.str("cs", 3, minlen=1, alphabet="hexlower")
    p.set("checksums", "images/boot.iso", "sha256:" + cs)
    text = write_parser(p)
    ti = TreeInfo()
    ti.loads(text)                       # every field is inside its documented domain: the load must succeed
    sym.cover("loaded")
    got = ti_facts(ti)
    sym.check("release", got["release"] == [name, short, version, layered])
    if layered:
        sym.check("base_product", got["base_product"] == bp)
    sym.check("tree", got["tree"] == [arch, ts, sorted([arch, "xen"])])
    sym.check("variants", got["variants"] == expect_variants)
    sym.check("images", got["images"] == {arch: {"boot.iso": img}})
    sym.check("checksums", got["checksums"] == {"images/boot.iso": ["sha256", cs]})
    out = ti.dumps()
    sym.cover("rewritten")
    q = SortedConfigParser()
    q.read_string(out)
    sym.check("written-as-current-version", q.get("header", "version") == "1.2" and q.get("header", "type") == "productmd.treeinfo")
    sym.check("release-section-not-product", q.has_section("release") and not q.has_section("product"))
    back = TreeInfo()
    back.loads(out)
    sym.check("reload-identical", ti_facts(back) == got)
    sym.check("second-dump-identical", back.dumps() == out)


OTHER_00 = """[general]
family = zz
version = 9
arch = ppc
timestamp = 1
variant = Server
packagedir = pk

[images-ppc]
boot.iso = images/boot.iso

[images-ppc64]
boot.iso = ppc/ppc64/boot.iso
"""


def treeinfo_00(sym, arch, with_variant, with_discnum, blank_packagedir=False, with_repository=False, warm_other=False):
    """a pre-productmd treeinfo ([general] only): the documented mapping of doc/treeinfo-1.x
    blank_packagedir: 'packagedir =' left blank, the usual historical spelling of "the packages are at the top" ('.');
    with_repository: [general] names a repository of its own (packagedir and repository are independent keys)"""
    p = SortedConfigParser()
    family = sym.str("family", 3, minlen=1, alphabet=[(97, 122)])         # not one of the product names with special handling
    version = sym.str("version", 3, minlen=1, alphabet=[(48, 57), (46, 46)])
    sym.assume(sym.not_(sym.or_(version.startswith("."), version.endswith("."), ".." in version)))
    ts = sym.int("timestamp", 1, 2 ** 40)
    p.add_section("general")
    p.set("general", "family", family)
    p.set("general", "version", version)
    p.set("general", "arch", arch)
    p.set("general", "timestamp", str(ts))
    pk = sym.str("packagedir", 2, minlen=1, alphabet=[(97, 122)])
    p.set("general", "packagedir", "" if blank_packagedir else pk)
    want_pk = "." if blank_packagedir else pk
    want_repo = "."
    if with_repository:
        want_repo = sym.str("repository", 3, minlen=1, alphabet=[(97, 122)])
        p.set("general", "repository", want_repo)
    if with_variant:
        p.set("general", "variant", "Server")
    if with_discnum:
        dn = sym.int("discnum", 1, 9)
        p.set("general", "discnum", str(dn))
        p.set("general", "totaldiscs", str(dn + 1))
    img = sym.str("img", 2, minlen=1, alphabet=[(97, 122)])
    p.add_section("images-" + arch)
    p.set("images-" + arch, "boot.iso", img)
    text = write_parser(p)
    if warm_other:
        # another pre-productmd tree (other arch, two platforms) was converted before, by another object of the same process
        other = TreeInfo()
        other.loads(OTHER_00)
        sym.check("warm-up-platforms", other.tree.platforms == set(["ppc", "ppc64"]))
    ti = TreeInfo()
    ti.loads(text)
    sym.cover("loaded")
    sym.check("tree.platforms-exactly", ti.tree.platforms == set([arch]))
    sym.check("release.name", ti.release.name == family)
    sym.check("release.version", ti.release.version == version)
    sym.check("tree.arch", ti.tree.arch == arch)
    sym.check("tree.build_timestamp", ti.tree.build_timestamp == ts)
    sym.check("tree.platforms", arch in ti.tree.platforms)
    sym.check("images", ti.images.images == {arch: {"boot.iso": img}})
    if with_variant:
        sym.check("variant", sorted(ti.variants.variants.keys()) == ["Server"])
        v = ti.variants["Server"]
        if arch == "src":
            sym.check("source-packages", v.paths.source_packages == want_pk)
            sym.check("source-repository", v.paths.source_repository == want_repo)
        else:
            sym.check("packages", v.paths.packages == want_pk)
            sym.check("repository", v.paths.repository == want_repo)
    if with_discnum:
        sym.check("media", sym.and_(ti.media.discnum == dn, ti.media.totaldiscs == dn + 1))
    out = ti.dumps()
    sym.cover("rewritten")
    q = SortedConfigParser()
    q.read_string(out)
    sym.check("written-as-current-version", q.get("header", "version") == "1.2" and q.get("header", "type") == "productmd.treeinfo")
    back = TreeInfo()
    back.loads(out)
    sym.check("reload-identical", ti_facts(back) == ti_facts(ti))
    sym.check("second-dump-identical", back.dumps() == out)


# ---------------------------------------------------------------------------------------------------
# shipped historical fixtures (concrete documents, executed under the interpreter and natively)

def fixture_idempotent(sym, kind, rel):
    path = os.path.join(REPO, rel)
    cls = {"treeinfo": TreeInfo, "composeinfo": ComposeInfo, "images": Images, "rpms": Rpms}[kind]
    obj = cls()
    obj.load(path)
    sym.cover("loaded")
    first = obj.dumps()
    back = cls()
    back.loads(first)
    second = back.dumps()
    sym.check("conversion-happens-once", second == first)
    if kind == "treeinfo":
        sym.check("header", "[header]" in first and "version = 1.2" in first and "type = productmd.treeinfo" in first)
        sym.check("facts-stable", ti_facts(back) == ti_facts(obj))
    else:
        doc = json.loads(first)
        sym.check("header", doc["header"]["version"] == "1.2" and doc["header"]["type"] == "productmd." + kind)
        if kind == "composeinfo":
            sym.check("facts-stable", ci_facts(back) == ci_facts(obj))


def _fixtures():
    out = []
    for f in sorted(glob.glob(os.path.join(REPO, "tests", "treeinfo", "*"))):
        if os.path.isfile(f):
            out.append(("treeinfo", os.path.relpath(f, REPO)))
    for pat, kind in (("tests/compose/**/composeinfo.json", "composeinfo"), ("tests/images/*.json", "images"), ("tests/compose/**/images.json", "images"),
                      ("tests/compose/**/image-manifest.json", "images"), ("tests/compose/**/rpms.json", "rpms"), ("tests/compose/**/rpm-manifest.json", "rpms")):
        for f in sorted(glob.glob(os.path.join(REPO, pat), recursive=True)):
            out.append((kind, os.path.relpath(f, REPO)))
    return out


def jobs(tier, seed):
    big = tier == "thorough"
    out = []
    layouts = ["0.0-0.2", "0.3", "0.4-0.9", "1.x"]
    for li, layout in enumerate(layouts):
        for ci_, ctype in enumerate(COMPOSE_TYPES):
            for layered in (False, True):
                for wl in (False, True):
                    if big or (li + ci_ + layered + wl + seed) % 4 == 0:
                        out.append({"harness": "composeinfo_old", "params": {"layout": layout, "ctype": ctype, "layered": layered, "with_label": wl}})
    for ci_, ctype in enumerate(COMPOSE_TYPES):
        if big or (ci_ + seed) % 2 == 0:
            out.append({"harness": "composeinfo_old", "params": {"layout": "0.0-0.2", "ctype": ctype, "layered": False, "with_label": False, "stale": True}})
    for ws in (True, False):
        for wf in (True, False):
            out.append({"harness": "images_old", "params": {"with_subvariant": ws, "with_format": wf}})
    # images 1.0 / 1.1 with source images under 'src' (the conversion harness of C10): several variants, with and without a src entry
    for li, lay in enumerate(C10.LAYOUTS):
        for ws in ((True, False) if big else (bool((li + seed) % 2),)):
            out.append({"harness": "images_1x_src", "params": {"layout": lay, "with_subvariant": ws}})
    out.append({"harness": "rpms_10", "params": {}})
    for lay in C10.LAYOUTS:
        out.append({"harness": "rpms_03", "params": {"layout": lay}})
    for layout in ("0.3", "1.x"):
        for arch in ("x86_64", "src"):
            for layered in (False, True):
                for wa in (False, True):
                    if big or (layered + wa + (arch == "src") + seed) % 2 == 0:
                        out.append({"harness": "treeinfo_old", "params": {"layout": layout, "arch": arch, "layered": layered, "with_addon": wa}})
    for arch in ("x86_64", "src"):
        for wv in (True, False):
            for wd in (True, False):
                if wv:          # a [general] section without 'variant' is only accepted for a few product names (heuristics): fixtures only
                    out.append({"harness": "treeinfo_00", "params": {"arch": arch, "with_variant": wv, "with_discnum": wd}})
                    out.append({"harness": "treeinfo_00", "params": {"arch": arch, "with_variant": wv, "with_discnum": wd, "warm_other": True}})
                    for bp, wr in ((True, True), (True, False), (False, True)):
                        if big or (bp + wr + wd + (arch == "src") + seed) % 2 == 0:
                            out.append({"harness": "treeinfo_00", "params": {"arch": arch, "with_variant": wv, "with_discnum": wd, "blank_packagedir": bp, "with_repository": wr}})
    fx = _fixtures()
    for i, (kind, rel) in enumerate(fx):
        if True:            # every shipped fixture, in both tiers (about a second each)
            out.append({"harness": "fixture_idempotent", "params": {"kind": kind, "rel": rel}, "validate_every": 1})
    return out


META = {
    "fp_lemma": True,
    "expected_covers": {"composeinfo_old": ["loaded", "rewritten"], "images_old": ["loaded", "rewritten"], "rpms_10": ["loaded"], "rpms_03": ["loaded", "rewritten"], "images_1x_src": ["loaded", "rewritten"],
                        "treeinfo_old": ["loaded", "rewritten"], "treeinfo_00": ["loaded", "rewritten"], "fixture_idempotent": ["loaded"]},
    "assumptions": [
        "old documents are built by a down-converter in the harness (the documented mapping, written independently of the readers) with symbolic leaves; "
        "the header version is a symbolic integer pair constrained to the range in which the layout is valid, so every version gate is decided for all version numbers",
        "rpms <= 0.3: the layouts of C10 (1-2 variants, 1-3 binary arches that share source packages, src table present/absent), header 0.0-0.3 symbolic, every leaf symbolic",
        "composeinfo < 0.3: date/type/respin exist only inside the id (symbolic 8-digit date, respin 0..9999, every type suffix); variants related only by UID prefix (depth 2)",
        "pre-productmd treeinfo: the documented [general] mapping only; product-specific heuristics (names starting with 'Red Hat Enterprise Linux', 'Fedora', 'CentOS', ...; RHEL 3-6 conventions) "
        "are exercised by the shipped fixtures only",
        "shipped historical fixtures are concrete: they are executed under the interpreter and natively with the idempotence oracle (ordinary execution, not a solver result); "
        "both tiers run all of them",
        "rpms 0.x documents: see C10 (same readers)",
        "images 1.0 / 1.1 documents with source images filed under 'src': the layouts and the conversion harness of C10 (1-2 variants, 1-3 binary arches, src entry present/absent)",
        "JSON / INI text layers replaced by the DocText stubs",
    ],
}
