"""C09 - image identity is unique within a manifest."""
import json

from productmd.images import Images, Image, identify_image, UNIQUE_IMAGE_ATTRIBUTES, SUPPORTED_IMAGE_TYPES, SUPPORTED_IMAGE_FORMATS

PROPERTY = "C09"

IDENTITY = ["subvariant", "type", "format", "arch", "disc_number", "unified", "additional_variants"]
CELLS = [("Server", "x86_64"), ("Server", "aarch64"), ("Workstation", "x86_64")]
ADDITIONAL = [[], ["Client"], ["Client", "Server"], ["Workstation", "Client"]]          # the last one is not in sorted order: the list is kept as given


def make_image(sym, im, i, unified_choice, second_type=False):
    img = Image(im)
    img.path = sym.str("path%d" % i, 2, minlen=1)
    img.mtime = 1
    img.size = 2
    img.volume_id = None
    img.type = sym.one_of("type%d" % i, ["dvd", "boot", "qcow2"])
    img.format = sym.one_of("format%d" % i, ["iso", "qcow2"])
    img.arch = sym.one_of("arch%d" % i, ["x86_64", "src"])
    img.disc_number = sym.int("discnum%d" % i, 1, 3)
    img.disc_count = 3
    img.checksums = {"sha256": sym.str("sha256_%d" % i, 2)}
    if second_type:
        img.checksums["md5"] = sym.str("md5_%d" % i, 2)          # several checksum types, partially overlapping between images
    img.implant_md5 = None
    img.bootable = False
    img.subvariant = sym.str("subvariant%d" % i, 2)
    img.unified = unified_choice > 0
    img.additional_variants = list(ADDITIONAL[unified_choice])
    return img


def same_identity(sym, a, b):
    return sym.and_(*[sym.same(getattr(a, k), getattr(b, k)) for k in IDENTITY])


def all_images(im):
    out = []
    for variant in sorted(im.images):
        for arch in sorted(im.images[variant]):
            for img in im.images[variant][arch]:
                if not any(img is x for x in out):
                    out.append(img)
    return out


def snapshot(im):
    return dict((v, dict((a, list(im.images[v][a])) for a in im.images[v])) for v in im.images)


def same_snapshot(a, b):
    if sorted(a.keys()) != sorted(b.keys()):
        return False
    for v in a:
        if sorted(a[v].keys()) != sorted(b[v].keys()):
            return False
        for arch in a[v]:
            x, y = a[v][arch], b[v][arch]
            if len(x) != len(y) or any(not any(i is j for j in y) for i in x):
                return False
    return True


def add_step(sym, pre_cells, new_cell, unified, versioned, md5=(False, False, False, False), foreign=None):
    """inductive step: from any manifest satisfying the invariant, one add either is refused and changes nothing
    or keeps the invariant; for format >= 1.1 it is refused exactly when it would break the invariant"""
    im = Images()
    pre = []
    try:
        for i, c in enumerate(pre_cells):
            img = make_image(sym, im, i, unified[i], md5[i])
            im.add(CELLS[c][0], CELLS[c][1], img)
            pre.append(img)
    except ValueError:
        return
    # the pre-state satisfies the invariant (it was built by add on a current-format manifest)
    sym.cover("pre-state")
    if versioned:
        major = sym.int("major", 0, 3)
        minor = sym.int("minor", 0, 3)
        im.header.version = "%d.%d" % (major, minor)
        enforced = sym.or_(major > 1, sym.and_(major == 1, minor >= 1))
    else:
        enforced = True
    owner = im
    if foreign is not None:
        # the image object was prepared for another manifest (e.g. a legacy one that is being migrated): what counts is the
        # manifest it is added to
        owner = Images()
        owner.header.version = foreign
    new = make_image(sym, owner, len(pre_cells), unified[len(pre_cells)], md5[len(pre_cells)])
    before = snapshot(im)
    collision = sym.or_(*[sym.and_(same_identity(sym, p, new), sym.not_(sym.same(p.checksums, new.checksums))) for p in pre])
    try:
        im.add(CELLS[new_cell][0], CELLS[new_cell][1], new)
        raised = False
    except ValueError:
        raised = True
    sym.cover("added")
    sym.check("refused-iff-identity-collision", sym.iff(raised, sym.and_(enforced, collision)))
    if raised:
        sym.check("refusal-leaves-manifest-unchanged", same_snapshot(snapshot(im), before))
        # a refusal is not a one-off: the very same object offered again, to the same cell and to another one, is refused again
        for c2 in (new_cell, (new_cell + 1) % len(CELLS)):
            try:
                im.add(CELLS[c2][0], CELLS[c2][1], new)
                again = False
            except ValueError:
                again = True
            sym.check("refused-again[%d]" % c2, again)
        sym.check("still-unchanged-after-the-retries", same_snapshot(snapshot(im), before))
    else:
        imgs = all_images(im)
        sym.check("image-filed", any(x is new for x in im.images[CELLS[new_cell][0]][CELLS[new_cell][1]]))
        sym.check("nothing-lost", all(any(x is p for x in imgs) for p in pre))
        if not versioned:
            for x in range(len(imgs)):
                for y in range(x + 1, len(imgs)):
                    sym.check("invariant[%d,%d]" % (x, y),
                              sym.implies(same_identity(sym, imgs[x], imgs[y]), sym.same(imgs[x].checksums, imgs[y].checksums)))


def image_dict(sym, i, with_unified):
    d = {
        "path": sym.str("path%d" % i, 2, minlen=1), "mtime": 1, "size": 2, "volume_id": None,
        "type": sym.one_of("type%d" % i, ["dvd", "boot"]), "format": "iso", "arch": sym.one_of("arch%d" % i, ["x86_64", "src"]),
        "disc_number": sym.int("discnum%d" % i, 1, 2), "disc_count": 2, "checksums": {"sha256": sym.str("sha%d" % i, 2)},
        "implant_md5": None, "bootable": False, "subvariant": sym.str("subvariant%d" % i, 2),
    }
    if with_unified:
        d["unified"] = True
        d["additional_variants"] = ["Client"]
    return d


def load_collision(sym, cell2, with_unified):
    """a document holding two images of equal identity and different checksums is rejected for format >= 1.1"""
    major = sym.int("major", 0, 2)
    minor = sym.int("minor", 0, 3)
    a = image_dict(sym, 0, with_unified)
    b = image_dict(sym, 1, with_unified)
    sym.assume(a["path"] != b["path"])
    collide = sym.and_(*[sym.same(a[k], b[k]) for k in ["subvariant", "type", "format", "arch", "disc_number"]])
    differ = sym.not_(sym.same(a["checksums"], b["checksums"]))
    v2, a2 = CELLS[cell2]
    images = {"Server": {"x86_64": [a]}}
    images.setdefault(v2, {}).setdefault(a2, []).append(b)
    doc = {
        "header": {"version": "%d.%d" % (major, minor), "type": "productmd.images"},
        "payload": {"compose": {"id": "Fedora-20-20131212.0", "type": "production", "date": "20131212", "respin": 0}, "images": images},
    }
    im = Images()
    try:
        im.loads(json.dumps(doc))
        raised = False
    except ValueError:
        raised = True
    sym.cover("loaded")
    enforced = sym.or_(major > 1, sym.and_(major == 1, minor >= 1))
    sym.check("colliding-document-rejected-from-1.1", sym.implies(sym.and_(enforced, collide, differ), raised))
    sym.check("no-refusal-without-collision", sym.implies(raised, sym.and_(enforced, collide, differ)))


def load_onto_existing(sym, cell2, with_unified):
    """a document is loaded into a manifest that already holds an image (from earlier add calls or an earlier load): the loaded images
    are checked against the ones that are there"""
    major = sym.int("major", 1, 2)
    minor = sym.int("minor", 0, 3)
    a = image_dict(sym, 0, with_unified)
    b = image_dict(sym, 1, with_unified)
    sym.assume(a["path"] != b["path"])
    collide = sym.and_(*[sym.same(a[k], b[k]) for k in ["subvariant", "type", "format", "arch", "disc_number"]])
    differ = sym.not_(sym.same(a["checksums"], b["checksums"]))
    im = Images()
    held = Image(im)
    for k, v in a.items():
        setattr(held, k, dict(v) if isinstance(v, dict) else list(v) if isinstance(v, list) else v)
    try:
        im.add("Server", "x86_64", held)
    except ValueError:
        return
    v2, a2 = CELLS[cell2]
    doc = {
        "header": {"version": "%d.%d" % (major, minor), "type": "productmd.images"},
        "payload": {"compose": {"id": "Fedora-20-20131212.0", "type": "production", "date": "20131212", "respin": 0}, "images": {v2: {a2: [b]}}},
    }
    try:
        im.loads(json.dumps(doc))
        raised = False
    except ValueError:
        raised = True
    sym.cover("loaded")
    enforced = sym.or_(major > 1, sym.and_(major == 1, minor >= 1))
    sym.check("collision-with-a-held-image-rejected-from-1.1", sym.implies(sym.and_(enforced, collide, differ), raised))
    if not raised:
        imgs = all_images(im)
        sym.check("held-image-still-there", any(x is held for x in imgs))
        for x in range(len(imgs)):
            for y in range(x + 1, len(imgs)):
                sym.check("invariant-after-load[%d,%d]" % (x, y),
                          sym.implies(sym.and_(enforced, same_identity(sym, imgs[x], imgs[y])), sym.same(imgs[x].checksums, imgs[y].checksums)))


def add_after_load(sym, cell2, with_unified):
    """a document of any format version is loaded (the manifest is a current one from then on), then an image is added: refused
    iff it collides with a loaded image"""
    major = 1
    minor = sym.int("minor", 0, 2)
    a = image_dict(sym, 0, with_unified)
    b = image_dict(sym, 1, with_unified)
    sym.assume(a["path"] != b["path"])
    collide = sym.and_(*[sym.same(a[k], b[k]) for k in ["subvariant", "type", "format", "arch", "disc_number"]])
    differ = sym.not_(sym.same(a["checksums"], b["checksums"]))
    doc = {
        "header": {"version": "%d.%d" % (major, minor), "type": "productmd.images"},
        "payload": {"compose": {"id": "Fedora-20-20131212.0", "type": "production", "date": "20131212", "respin": 0}, "images": {"Server": {"x86_64": [a]}}},
    }
    im = Images()
    try:
        im.loads(json.dumps(doc))
    except ValueError:
        return
    sym.cover("loaded")
    new = Image(im)
    for k, v in b.items():
        setattr(new, k, dict(v) if isinstance(v, dict) else list(v) if isinstance(v, list) else v)
    v2, a2 = CELLS[cell2]
    before = snapshot(im)
    try:
        im.add(v2, a2, new)
        raised = False
    except ValueError:
        raised = True
    sym.cover("added")
    sym.check("refused-iff-collision-with-a-loaded-image", sym.iff(raised, sym.and_(collide, differ)))
    if raised:
        sym.check("refusal-changes-nothing", same_snapshot(snapshot(im), before))


def identity_object_vs_dict(sym, unified_choice, drop_defaults):
    """identify_image gives the same identity for an Image and for its serialised dictionary"""
    im = Images()
    img = make_image(sym, im, 0, unified_choice)
    out = []
    try:
        img.serialize(out)
    except ValueError:
        return
    d = out[0]
    if drop_defaults:
        d.pop("unified", None)
        d.pop("additional_variants", None)
    sym.cover("serialised")
    sym.check("identity-object-equals-identity-dict", identify_image(img) == identify_image(d))
    sym.check("identity-fields", tuple(identify_image(img)) == (img.subvariant, img.type, img.format, img.arch, img.disc_number,
                                                                  img.unified, img.additional_variants))


def _jobs_add_after_load(out):
    for cell2 in (0, 1, 2):
        for wu in (False, True):
            out.append({"harness": "add_after_load", "params": {"cell2": cell2, "with_unified": wu}})


def jobs(tier, seed):
    big = tier == "thorough"
    out = []
    pres = [[0], [0, 0], [0, 1], [2, 0]] + ([[0, 1, 2], [0, 0, 0]] if big else [])
    for pi, pre in enumerate(pres):
        for new_cell in ((0, 1, 2) if big else (0, 2)):
            for u in (((0,) * 4, (1, 1, 1, 1), (1, 2, 1, 2), (0, 1, 0, 1), (3, 3, 1, 3), (2, 3, 3, 2)) if big else ((0,) * 4, (1, 2, 1, 1), (3, 2, 3, 3))):
                out.append({"harness": "add_step", "params": {"pre_cells": pre, "new_cell": new_cell, "unified": list(u), "versioned": False}})
        out.append({"harness": "add_step", "params": {"pre_cells": pre, "new_cell": (pi + seed) % 3, "unified": [0, 0, 0, 0], "versioned": True}})
        for md5 in ([True, False, True, False], [False, True, False, True], [True, True, True, True]):
            out.append({"harness": "add_step", "params": {"pre_cells": pre, "new_cell": (pi + 1) % 3, "unified": [0, 0, 0, 0], "versioned": False, "md5": md5}})
    for cell2 in (0, 1, 2):
        for wu in (False, True):
            out.append({"harness": "load_collision", "params": {"cell2": cell2, "with_unified": wu}})
    for fv in ("1.0", "0.9", "1.1"):
        out.append({"harness": "add_step", "params": {"pre_cells": [0, 1], "new_cell": 2, "unified": [0, 0, 0, 0], "versioned": False, "foreign": fv}})
    for cell2 in (0, 1, 2):
        out.append({"harness": "load_onto_existing", "params": {"cell2": cell2, "with_unified": bool(cell2 % 2)}})
    _jobs_add_after_load(out)
    for uc in (0, 1, 2, 3):
        for dd in (False, True):
            out.append({"harness": "identity_object_vs_dict", "params": {"unified_choice": uc, "drop_defaults": dd and uc == 0}})
    return out


META = {
    "expected_covers": {"add_step": ["pre-state", "added"], "load_collision": ["loaded"], "load_onto_existing": ["loaded"], "add_after_load": ["loaded", "added"], "identity_object_vs_dict": ["serialised"]},
    "assumptions": [
        "inductive step: the pre-state is any manifest of 1-2 (thorough: up to 3) images built by add on a current-format manifest, i.e. one that satisfies the invariant; "
        "identity attributes and checksums symbolic (type/format/arch from small tables so that collisions are reachable), cells from a catalogue of three",
        "header version symbolic as two integers 0..3 rendered '%d.%d' (below, at and above 1.1)",
        "add_after_load: a document of format 1.0 / 1.1 / 1.2 with one image is loaded, then an image is added to one of three cells",
        "JSON text layer replaced by the DocText stub",
    ],
}
