"""C11 - the variant forest stays consistent and every variant is findable."""
from productmd.composeinfo import ComposeInfo, Variant, VARIANT_TYPES

PROPERTY = "C11"

# pre-state forests: (id, uid, parent uid, arches)
FORESTS = {
    "empty": [],
    "one": [("Server", "Server", None, ["x86_64", "s390x"])],
    "chain": [("Server", "Server", None, ["x86_64", "s390x"]),
              ("RT", "Server-RT", "Server", ["x86_64", "s390x"]),
              ("Extra", "Server-RT-Extra", "Server-RT", ["x86_64"])],
    "wide": [("Server", "Server", None, ["x86_64", "ppc64le"]),
             ("HA", "Server-HA", "Server", ["x86_64"]),
             ("optional", "Server-optional", "Server", ["x86_64", "ppc64le"]),
             ("Client", "Client", None, ["x86_64"]),
             ("optional", "Client-optional", "Client", ["x86_64"])],
    "seven": [("A", "A", None, ["x86_64", "aarch64", "s390x"]),
              ("B", "A-B", "A", ["x86_64", "aarch64"]),
              ("C", "A-B-C", "A-B", ["x86_64"]),
              ("D", "A-B-D", "A-B", ["aarch64"]),
              ("E", "A-E", "A", ["s390x"]),
              ("F", "F", None, ["x86_64"]),
              ("G", "F-G", "F", ["x86_64"])],
    # a top-level variant whose UID carries a dash ('Server-HighAvailability', id 'ServerHighAvailability') sorts between 'Server' and
    # Server's own children: UID order is not the depth-first order of the forest
    "dashed": [("Server", "Server", None, ["x86_64", "s390x"]),
               ("ResilientStorage", "Server-ResilientStorage", "Server", ["x86_64"]),
               ("Addon", "Server-Addon", "Server", ["x86_64", "s390x"]),
               ("ServerHighAvailability", "Server-HighAvailability", None, ["x86_64"])],          # childless, as the property's quantifier requires
    # ids that concatenate to other ids: 'ServerHA' next to Server/HA, 'HAExtras' next to HA/Extras - every UID is still unique
    "concat": [("Server", "Server", None, ["x86_64", "s390x"]),
               ("HA", "Server-HA", "Server", ["x86_64", "s390x"]),
               ("Extras", "Server-HA-Extras", "Server-HA", ["x86_64"]),
               ("HAExtras", "Server-HAExtras", "Server", ["s390x"]),
               ("ServerHA", "ServerHA", None, ["x86_64"])],
    # ids that repeat along a chain: the UID "X-X-X" read as a path is X / X / X, and "X-X" is both a UID and a relative path below X
    "repeat": [("X", "X", None, ["x86_64", "s390x"]),
               ("X", "X-X", "X", ["x86_64", "s390x"]),
               ("X", "X-X-X", "X-X", ["x86_64"]),
               ("XX", "XX", None, ["x86_64"])],
}
TYPE_OF = {"optional": "optional", "HA": "addon", "RT": "variant"}


def build_forest(sym, name, symbolic_types=False):
    ci = ComposeInfo()
    objs = {}
    for vid, uid, parent, arches in FORESTS[name]:
        v = Variant(ci)
        v.id = vid
        v.uid = uid
        v.name = "name of " + uid
        v.type = sym.one_of("type_" + uid.replace("-", "_"), ["variant", "optional", "addon"]) if symbolic_types else TYPE_OF.get(vid, "variant")
        v.arches = set(arches)
        objs[uid] = v
        if parent is None:
            ci.variants.add(v)
        else:
            objs[parent].add(v)
    return ci, objs


def invariant(sym, ci, objs, tag):
    """children mirror parents, UIDs aligned and unique, arches nested, both lookups work"""
    seen = []

    def walk(container, parent, where):
        for key in sorted(container.variants):
            v = container.variants[key]
            at = "[" + where + "/" + key + "]"            # concrete label: the chain of ids
            sym.check(tag + ".parent-pointer" + at, v.parent is parent)
            if parent is None:
                sym.check(tag + ".top-uid" + at, v.uid.replace("-", "") == v.id)
            else:
                sym.check(tag + ".uid" + at, v.uid == parent.uid + "-" + v.id)
                sym.check(tag + ".arches-subset" + at, v.arches.issubset(parent.arches))
                sym.check(tag + ".by-id" + at, parent[v.id] is v)
            sym.check(tag + ".uid-unique" + at, sym.not_(sym.or_(*[v.uid == u for u in seen])))
            seen.append(v.uid)
            sym.check(tag + ".by-uid" + at, ci[v.uid] is v)
            walk(v, v, where + "/" + key)
    walk(ci.variants, None, "")
    return seen


def contents(container):
    return sorted(container.variants.items(), key=lambda kv: kv[0])


def same_contents(a, b):
    return len(a) == len(b) and all(x[0] == y[0] and x[1] is y[1] for x, y in zip(a, b))


CANDIDATE_IDS = ["New", "Server", "RT", "optional", "B", "bad-id", ""]
ARCH_SETS = [["x86_64"], ["x86_64", "s390x"], ["mips"], ["x86_64", "mips"], []]


def add_step(sym, forest, parent_uid, cand_id, arch_set, existing):
    """one add from a consistent forest: refused exactly when it would break consistency, and then nothing changes"""
    ci, objs = build_forest(sym, forest)
    container = ci.variants if parent_uid is None else objs[parent_uid]
    parent = None if parent_uid is None else objs[parent_uid]
    before = contents(container)
    if existing is not None:
        cand = objs[existing]                      # e.g. an ancestor added below its own descendant
        old_parent = cand.parent
    else:
        cand = Variant(ci)
        cand.id = cand_id
        cand.uid = sym.str("uid", 14)
        cand.name = sym.str("name", 3)
        cand.type = sym.str("type", 15)
        cand.arches = set(ARCH_SETS[arch_set])
    try:
        container.add(cand)
        raised = False
    except (ValueError, TypeError):
        raised = True
    sym.cover("called")
    if existing is not None:
        ancestors = []
        p = parent
        while p is not None:
            ancestors.append(p)
            p = p.parent if p is not cand else old_parent
            if len(ancestors) > 10:
                break
        is_ancestor = any(a is cand for a in ancestors)
        dup = any(k == cand.id and v is not cand for k, v in before)      # re-filing the same object where it already is changes nothing
        aligned = (cand.uid == parent.uid + "-" + cand.id) if parent is not None else (cand.uid.replace("-", "") == cand.id)
        ok = (not is_ancestor) and (not dup) and aligned and (parent is None or cand.arches.issubset(parent.arches))
        sym.check("existing-refused-iff-breaks", raised == (not ok))
        if raised:
            sym.check("refusal-leaves-container-unchanged", same_contents(contents(container), before))
        return
    valid_id = sym.and_(len(cand_id) > 0, "-" not in cand_id)
    if parent is None:
        aligned = cand.uid.replace("-", "") == cand_id
    else:
        aligned = cand.uid == parent.uid + "-" + cand_id
    arches = ARCH_SETS[arch_set]
    arches_ok = len(arches) > 0 and (parent is None or all(a in parent.arches for a in arches))
    dup = cand_id in [k for k, v in before]
    ok = sym.and_(valid_id, aligned, arches_ok, sym.not_(dup), len(cand.name) > 0, cand.type in VARIANT_TYPES)
    sym.check("refused-iff-it-would-break-consistency", sym.iff(raised, sym.not_(ok)))
    if raised:
        sym.check("refusal-leaves-container-unchanged", same_contents(contents(container), before))
        return
    sym.cover("accepted")
    sym.check("filed-under-its-id", container.variants[cand_id] is cand)
    sym.check("others-kept", same_contents([kv for kv in contents(container) if kv[0] != cand_id], before))
    invariant(sym, ci, objs, "after")


def add_keyed(sym, cand_id, key):
    """Variants.add(variant, variant_id=key) - the way treeinfo files its top-level variants under their UID: a key that is taken by
    another variant is refused and nothing changes; a free key is filled"""
    ci = ComposeInfo()
    first = Variant(ci)
    first.id, first.uid, first.name, first.type, first.arches = "ServerTools", "Server-Tools", "first", "variant", set(["x86_64"])
    ci.variants.add(first, variant_id="Server-Tools")
    other = Variant(ci)
    other.id, other.uid, other.name, other.type, other.arches = "Client", "Client", "client", "variant", set(["x86_64"])
    ci.variants.add(other)
    before = contents(ci.variants)
    cand = Variant(ci)
    cand.id = cand_id
    cand.uid = {"ServerTools": "Server-Tools", "Client": "Client", "New": "New"}[cand_id]
    cand.name = sym.str("name", 3, minlen=1)
    cand.type = "variant"
    cand.arches = set(["x86_64"])
    try:
        ci.variants.add(cand, variant_id=key)
        raised = False
    except ValueError:
        raised = True
    sym.cover("called")
    taken = key in [k for k, v in before]
    sym.check("taken-key-refused-free-key-filled", raised == taken)
    if raised:
        sym.check("refusal-leaves-container-unchanged", same_contents(contents(ci.variants), before))
    else:
        sym.cover("accepted")
        sym.check("filed-under-the-key", ci.variants.variants[key] is cand)
        sym.check("others-kept", same_contents([kv for kv in contents(ci.variants) if kv[0] != key], before))
    sym.check("first-still-found-by-uid", ci["Server-Tools"] is first or (not raised and key == "Server-Tools"))


def reload_consistent(sym, forest):
    """the same consistency after a write/read cycle"""
    ci, objs = build_forest(sym, forest, symbolic_types=True)
    ci.release.name = "Fedora"
    ci.release.short = "f"
    ci.release.version = "20"
    ci.release.type = "ga"
    ci.compose.id = "f-20-20131212.0"
    ci.compose.type = "production"
    ci.compose.date = "20131212"
    ci.compose.respin = 0
    try:
        text = ci.dumps()
    except ValueError:
        return
    back = ComposeInfo()
    back.loads(text)
    sym.cover("reloaded")
    seen = invariant(sym, back, None, "reloaded")
    sym.check("all-variants-present", sorted(seen) == sorted(uid for vid, uid, p, a in FORESTS[forest]))
    # the re-read forest refuses what the original refuses: a second variant with the id and UID of an existing one, at every position
    for vid, uid, parent, arches in FORESTS[forest]:
        container = back.variants if parent is None else back[parent]
        before = contents(container)
        dup = Variant(back)
        dup.id, dup.uid, dup.name, dup.type, dup.arches = vid, uid, "duplicate", "variant", set(arches)
        try:
            container.add(dup)
            raised = False
        except ValueError:
            raised = True
        sym.check("duplicate-refused-after-reload[%s]" % uid, raised)
        sym.check("container-unchanged-after-reload[%s]" % uid, same_contents(contents(container), before))
        sym.check("by-id-after-reload[%s]" % uid, container.variants[vid].uid == uid)


def get_variants_filter(sym, forest, types, recursive, start):
    ci, objs = build_forest(sym, forest, symbolic_types=True)
    arch = sym.str("arch", 8) if sym.fork("with_arch") else None
    node = ci if start is None else objs[start]
    kwargs = {"recursive": recursive}
    if arch is not None:
        kwargs["arch"] = arch
    if types is not None:
        kwargs["types"] = types
    res = node.get_variants(**kwargs)
    sym.cover("called")
    want_self = bool(types) and "self" in types and start is not None
    if want_self:
        sym.check("self-included-once", len([v for v in res if v is node]) == 1)
        res = [v for v in res if v is not node]
    real_types = [t for t in types if t != "self"] if types else types
    uids = [v.uid for v in res]
    sym.check("no-duplicates", len(set(uids)) == len(uids))
    sym.check("ordered-by-uid", uids == sorted(uids))
    for v in res:
        if arch is not None:
            sym.check("has-arch[" + v.uid + "]", sym.or_(len(arch) == 0, arch == "src", arch in sorted(v.arches)))
        if types:
            # 'self' only ever selects the node the call was made on
            sym.check("has-type[" + v.uid + "]", v.type in real_types)
    # scope: direct children, or the whole subtree when recursive
    spec = FORESTS[forest]
    top = start

    def below(uid):
        out = []
        for vid, u, p, a in spec:
            if p == uid:
                out.append(u)
                if recursive:
                    out.extend(below(u))
        return out
    scope = below(top)
    sym.check("within-scope", all(u in scope for u in uids))
    if arch is None and not types:
        sym.check("no-filter-returns-everything-in-scope", sorted(uids) == sorted(scope))
    if arch is None and types and not real_types:
        sym.check("only-self-requested", uids == [])


def jobs(tier, seed):
    big = tier == "thorough"
    out = []
    cases = []
    for forest in FORESTS:
        parents = [None] + [u for i, u, p, a in FORESTS[forest] if not (p is None and "-" in u)]      # dashed top-level variants stay childless
        for pi, parent in enumerate(parents):
            for ci_, cid in enumerate(CANDIDATE_IDS):
                for ai in range(len(ARCH_SETS)):
                    cases.append((forest, parent, cid, ai))
    for k, (forest, parent, cid, ai) in enumerate(cases):
        if big or (k * 7 + seed) % 11 == 0 or (cid == "New" and ai in (2, 3) and parent is not None and (k + seed) % 2 == 0):
            out.append({"harness": "add_step", "params": {"forest": forest, "parent_uid": parent, "cand_id": cid, "arch_set": ai, "existing": None}})
    # an ancestor (or other existing node) added somewhere else
    for forest, parent, existing in [("chain", "Server-RT-Extra", "Server"), ("chain", "Server-RT", "Server-RT"), ("chain", "Server-RT-Extra", "Server-RT"),
                                     ("seven", "A-B-C", "A"), ("seven", "F", "A-B-C"), ("wide", None, "Server")]:
        out.append({"harness": "add_step", "params": {"forest": forest, "parent_uid": parent, "cand_id": None, "arch_set": 0, "existing": existing}})
    for cand_id, key in (("ServerTools", "Server-Tools"), ("Client", "Client"), ("New", "New"), ("New", "Server-Tools"), ("ServerTools", "Server-Tools2")):
        out.append({"harness": "add_keyed", "params": {"cand_id": cand_id, "key": key}})
    for forest in FORESTS:
        if forest != "empty":
            out.append({"harness": "reload_consistent", "params": {"forest": forest}})
    type_sets = [None, ["variant"], ["optional", "addon"], ["addon"], ["variant", "optional", "addon", "layered-product"], ["self"], ["self", "addon"]]
    for forest in ("chain", "wide", "seven", "dashed", "concat", "repeat"):
        starts = [None] + [u for i, u, p, a in FORESTS[forest] if any(pp == u for _, _, pp, _ in FORESTS[forest])]
        for si, start in enumerate(starts):
            for ti, ts in enumerate(type_sets):
                for rec in (False, True):
                    if ts is not None and "self" in ts and start is None:
                        continue          # 'self' is only meaningful on a variant node
                    if big or (si + ti + rec + seed) % 3 == 0 or (rec and ts is None) or (ts is not None and "self" in ts):
                        out.append({"harness": "get_variants_filter", "params": {"forest": forest, "types": ts, "recursive": rec, "start": start}})
    return out


META = {
    "expected_covers": {"add_keyed": ["called", "accepted"], "add_step": ["called", "accepted"], "reload_consistent": ["reloaded"], "get_variants_filter": ["called"]},
    "assumptions": [
        "inductive step over a catalogue of consistent forests (0-7 variants, depth <= 3, built through the real add); the candidate's UID, name and type are "
        "arbitrary symbolic strings, its id and arch set come from pools that contain duplicates, invalid ids, foreign and empty arch sets; the parent position ranges over every node and the top level",
        "get_variants: the architecture filter is an arbitrary symbolic string (or absent), type filters from a list of subsets, both values of recursive, every inner node as starting point",
        "JSON text layer replaced by the DocText stub (reload_consistent)",
    ],
}
