"""C15 - compose ids encode date, type and respin recoverably."""
from productmd.composeinfo import ComposeInfo, Variant, get_date_type_respin, COMPOSE_TYPES
from productmd.common import RELEASE_TYPES

PROPERTY = "C15"

SHORTC = ["a-z", "A-Z", "0-9", "-", "_"]
VERC = ["a-z", "A-Z", "0-9", "."]


def create_decode(sym, rtype, layered, bp_type, ctype, n_short, n_ver, respin_max, variants=(), label=None, stale_id=False):
    """the created id starts with short-version[-type], validates, and decodes to (date, type, respin).
    variants: top-level variants of the compose (the id of a RHEL 5 compose on RHEL 5 carries the first of Client / Server)"""
    ci = ComposeInfo()
    for vid in variants:
        v = Variant(ci)
        v.id, v.uid, v.name, v.type, v.arches = vid, vid, vid, "variant", set(["x86_64"])
        ci.variants.add(v)
    short = sym.str("short", n_short, minlen=1, alphabet=SHORTC)
    version = sym.str("version", n_ver, minlen=1, alphabet=VERC)
    ci.release.short = short
    ci.release.version = version
    ci.release.type = rtype
    ci.release.name = "Name"
    ci.release.is_layered = layered
    if layered:
        bp_short = sym.str("bp_short", n_short, minlen=1, alphabet=SHORTC)
        bp_version = sym.str("bp_version", n_ver, minlen=1, alphabet=VERC)
        ci.base_product.short = bp_short
        ci.base_product.version = bp_version
        ci.base_product.type = bp_type
        ci.base_product.name = "Base"
    date = sym.str("date", 8, minlen=8, alphabet="digits")
    respin = sym.int("respin", 0, respin_max)
    ci.compose.date = date
    ci.compose.type = ctype
    ci.compose.respin = respin
    if label is not None:
        # a milestone label, final or not (the final release candidate is the GA compose): the id says what the type field says
        ci.compose.label = label
        ci.compose.final = sym.bool("final")
    try:
        ci.release.validate()
        if layered:
            ci.base_product.validate()
    except ValueError:
        return
    if stale_id:
        # the object still carries the id of the compose it was copied / loaded from (another release, the same date, type and respin)
        ci.compose.id = "Old-0.9-" + date + {"production": "", "nightly": ".n", "test": ".t", "ci": ".ci", "development": ".d"}[ctype] + "." + str(respin)
    cid = ci.create_compose_id()
    sym.cover("created")
    prefix = short + "-" + version
    if rtype != "ga":
        prefix = prefix + "-" + rtype
    sym.check("prefix", cid.startswith(prefix))
    ci.compose.id = cid
    try:
        ci.compose._validate_id()
        valid = True
    except ValueError:
        valid = False
    sym.check("passes-own-validation", valid)
    got = get_date_type_respin(cid)
    sym.cover("decoded")
    sym.check("date", got[0] == date)
    sym.check("type", got[1] == ctype)
    sym.check("respin", got[2] == respin)
    sym.check("respin-is-int", isinstance(got[2], int))


SUFFIXES = [("", "production"), (".n", "nightly"), (".nightly", "nightly"), (".t", "test"), (".test", "test"),
            (".ci", "ci"), (".d", "development")]


def decode_documented(sym, suffix, ctype, with_respin, n_prefix):
    """every documented type suffix is recognised; a missing respin is 0"""
    prefix = sym.str("prefix", n_prefix, alphabet=["a-z", "A-Z", "0-9", "-", "."])
    # the id proper starts after a dash, as in every id the library creates
    date = sym.str("date", 8, minlen=8, alphabet="digits")
    cid = prefix + "-" + date + suffix
    if with_respin:
        respin = sym.int("respin", 0, 9999999)
        cid = cid + "." + str(respin)
    else:
        respin = 0
    got = get_date_type_respin(cid)
    sym.cover("decoded")
    sym.check("date", got[0] == date)
    sym.check("type", got[1] == ctype)
    sym.check("respin", got[2] == respin)


def decode_unknown(sym, n_suffix, with_respin):
    """unknown suffixes are rejected with ValueError"""
    date = sym.str("date", 8, minlen=8, alphabet="digits")
    suffix = sym.str("suffix", n_suffix, minlen=1, alphabet="lower")
    sym.assume(sym.not_(sym.or_(suffix == "n", suffix == "nightly", suffix == "t", suffix == "test", suffix == "ci", suffix == "d")))
    cid = "Product-1.0-" + date + "." + suffix
    if with_respin:
        respin = sym.int("respin", 0, 9999999)
        cid = cid + "." + str(respin)
    try:
        got = get_date_type_respin(cid)
        raised = False
    except ValueError:
        raised = True
    sym.cover("called")
    sym.check("unknown-suffix-rejected", raised)


import C05

# the legacy (pre-0.3) composeinfo reader derives date / type / respin from the id (shared with C05): also when the
# document carries type/date/respin fields that say something else
legacy_reader = C05.composeinfo_old


def jobs(tier, seed):
    big = tier == "thorough"
    out = []
    ns, nv = (6, 10) if big else (4, 9)
    rtypes = RELEASE_TYPES if big else ["ga", "updates", "updates-testing"]
    ctypes = COMPOSE_TYPES
    for ct in ctypes:
        for i, rt in enumerate(rtypes):
            out.append({"harness": "create_decode", "params": {"rtype": rt, "layered": False, "bp_type": None, "ctype": ct,
                                                              "n_short": ns, "n_ver": nv, "respin_max": 10 ** 8 - 1}})
    lay = [("ga", "ga"), ("updates", "ga"), ("ga", "updates"), ("updates", "updates-testing")] if not big else \
        [(a, b) for a in ("ga", "updates", "eus") for b in ("ga", "updates", "updates-testing", "e4s")]
    lct = ctypes if big else ["production", "nightly"]
    for rt, bt in lay:
        for ct in lct:
            out.append({"harness": "create_decode", "params": {"rtype": rt, "layered": True, "bp_type": bt, "ctype": ct,
                                                              "n_short": 3, "n_ver": 9 if big else 4, "respin_max": 10 ** 8 - 1}})
    # short names of four characters (so that the RHEL 5 on RHEL 5 special case is inside the bound) and composes that have variants
    for vi, variants in enumerate((["Server"], ["Client", "Workstation"], ["Everything", "Server"], [])):
        for ci_, ct in enumerate(ctypes):
            if big or (vi + ci_ + seed) % 2 == 0:
                out.append({"harness": "create_decode", "params": {"rtype": "ga", "layered": True, "bp_type": "ga", "ctype": ct, "n_short": 4, "n_ver": 3,
                                                                  "respin_max": 999, "variants": variants}})
    # objects that still carry another compose's id (same date / type / respin) when the id is created
    for ci_, ct in enumerate(ctypes):
        out.append({"harness": "create_decode", "params": {"rtype": ["ga", "updates"][ci_ % 2], "layered": False, "bp_type": None, "ctype": ct, "n_short": 3, "n_ver": 3,
                                                          "respin_max": 999, "stale_id": True}})
    # composes that carry a milestone label, final or not
    for li, label in enumerate(("RC-1.0", "Beta-2.3", "Alpha-1.1")):
        for ci_, ct in enumerate(ctypes):
            if big or (li + ci_ + seed) % 2 == 0 or label == "RC-1.0":
                out.append({"harness": "create_decode", "params": {"rtype": ["ga", "updates"][li % 2], "layered": False, "bp_type": None, "ctype": ct, "n_short": 3, "n_ver": 3,
                                                                  "respin_max": 999, "label": label}})
    for suf, ct in SUFFIXES:
        for wr in (False, True):
            out.append({"harness": "decode_documented", "params": {"suffix": suf, "ctype": ct, "with_respin": wr, "n_prefix": 12 if big else 8}})
    for wr in (False, True):
        out.append({"harness": "decode_unknown", "params": {"n_suffix": 24 if big else 16, "with_respin": wr}})
    from productmd.composeinfo import COMPOSE_TYPES as _CT
    for ctype in _CT:
        for stale in (False, True):
            out.append({"harness": "legacy_reader", "params": {"layout": "0.0-0.2", "ctype": ctype, "layered": False, "with_label": False, "stale": stale}})
    return out


META = {
    "expected_covers": {"create_decode": ["created", "decoded"], "decode_documented": ["decoded"], "decode_unknown": ["called"], "legacy_reader": ["loaded", "rewritten"]},
    "assumptions": [
        "create_decode also on objects that still carry the id of another release (same date, type and respin) when create_compose_id is called",
        "composes with a milestone label (RC / Beta / Alpha) whose 'final' flag is symbolic",
        "composes with top-level variants (Server / Client+Workstation / Everything+Server / none) and layered releases with 4-character short names, which puts the "
        "RHEL 5 on RHEL 5 id format inside the bound",
        "release short names over [A-Za-z0-9_-], versions over [A-Za-z0-9.] accepted by the release validators; dates are 8 ASCII digits; respin in [0, 10^8)",
        "legacy (pre-0.3) documents: the conversion harness of C05 (layout 0.0-0.2, every compose type); the document may also carry type/date/respin fields "
        "that disagree with the id - before 0.3 the id is authoritative",
    ],
}
