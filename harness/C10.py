"""C10 - source content is always filed under binary architectures."""
import json

from productmd.images import Images, Image
from productmd.rpms import Rpms
from productmd.common import RPM_ARCHES

PROPERTY = "C10"


def valid_image(im, path):
    img = Image(im)
    img.path = path
    img.mtime = 1
    img.size = 2
    img.volume_id = None
    img.type = "dvd"
    img.format = "iso"
    img.arch = "src"
    img.disc_number = 1
    img.disc_count = 1
    img.checksums = {"sha256": "0" * 64}
    img.implant_md5 = None
    img.bootable = False
    img.subvariant = "Server"
    return img


def images_add_arch(sym, n, versioned=False):
    """Images.add accepts exactly the known binary architectures - whatever format version the manifest's header says"""
    arch = sym.str("arch", n)
    im = Images()
    if versioned:
        im.header.version = "%d.%d" % (sym.int("major", 0, 2), sym.int("minor", 0, 3))
    img = valid_image(im, "Server/source/iso/a.iso")
    try:
        im.add("Server", arch, img)
        raised = False
    except ValueError:
        raised = True
    sym.cover("called")
    ok = sym.and_(arch in RPM_ARCHES, sym.not_(arch in ["src", "nosrc"]))
    sym.check("accepted-iff-known-binary-arch", sym.iff(raised, sym.not_(ok)))
    if raised:
        sym.check("nothing-filed", im.images == {})
    else:
        sym.check("filed-under-that-arch", sorted(im.images["Server"].keys()) == [arch])
        sym.check("no-source-key", sym.not_(sym.or_("src" in im.images["Server"], "nosrc" in im.images["Server"])))


def rpms_add_arch(sym, n):
    arch = sym.str("arch", n)
    m = Rpms()
    try:
        m.add("Server", arch, "glibc-0:2.18-11.fc20.src.rpm", "Server/source/g/glibc.src.rpm", None, "source")
        raised = False
    except ValueError:
        raised = True
    sym.cover("called")
    ok = sym.and_(arch in RPM_ARCHES, sym.not_(arch in ["src", "nosrc"]))
    sym.check("accepted-iff-known-binary-arch", sym.iff(raised, sym.not_(ok)))
    if raised:
        sym.check("nothing-filed", m.rpms == {})
    else:
        sym.check("filed-under-that-arch", sorted(m.rpms["Server"].keys()) == [arch])


def add_arch_history(sym, kind, n, same):
    """refusals are stateless: in any sequence of adds on one manifest every call with a source or unknown arch is refused,
    also when the very same call was refused (or accepted) before"""
    m = Rpms() if kind == "rpms" else Images()
    first = sym.str("arch0", n)
    arches = [first, first if same else sym.str("arch1", n), first]
    accepted = []
    for step, arch in enumerate(arches):
        try:
            if kind == "rpms":
                m.add("Server", arch, "glibc-0:2.18-11.fc20.src.rpm", "Server/source/g/glibc-%d.src.rpm" % step, None, "source")
            else:
                m.add("Server", arch, valid_image(m, "Server/source/iso/a.iso"))
            raised = False
        except ValueError:
            raised = True
        ok = sym.and_(arch in RPM_ARCHES, sym.not_(arch in ["src", "nosrc"]))
        sym.check("call-%d-accepted-iff-known-binary-arch" % step, sym.iff(raised, sym.not_(ok)))
        if not raised:
            accepted.append(arch)
    sym.cover("called")
    table = m.rpms if kind == "rpms" else m.images
    if accepted:
        sym.check("no-source-key", sym.not_(sym.or_("src" in table["Server"], "nosrc" in table["Server"])))
        for a in accepted:
            sym.check("filed-under-its-arch", a in table["Server"])
    else:
        sym.check("nothing-filed", table == {})


def image_dict(sym, tag, arch):
    return {
        "path": sym.str("path_" + tag, 3, minlen=1), "mtime": sym.int("mtime_" + tag), "size": sym.int("size_" + tag, 1, None), "volume_id": None,
        "type": "dvd", "format": "iso", "arch": arch, "disc_number": 1, "disc_count": 1,
        "checksums": {"sha256": sym.str("sha_" + tag, 3)}, "implant_md5": None, "bootable": sym.bool("boot_" + tag),
        "subvariant": sym.str("sv_" + tag, 3),
    }


def concrete_image(tag, arch):
    return {"path": "p/%s" % tag, "mtime": 1, "size": 2, "volume_id": None, "type": "dvd", "format": "iso", "arch": arch, "disc_number": 1, "disc_count": 1,
            "checksums": {"sha256": tag}, "implant_md5": None, "bootable": False, "subvariant": "sv-" + tag}


def warm_images_load(layout):
    """what the process did before: another 1.0 images document, with the given variants and arches, was loaded into another object"""
    images = {}
    for variant, arches, has_src in layout:
        images[variant] = dict((a, [concrete_image("%s-%s" % (variant, a), a)]) for a in arches)
        if has_src:
            images[variant]["src"] = [concrete_image("%s-src" % variant, "src")]
    doc = {"header": {"version": "1.0", "type": "productmd.images"},
           "payload": {"compose": {"id": "Fedora-19-20130101.0", "type": "production", "date": "20130101", "respin": 0}, "images": images}}
    Images().loads(json.dumps(doc))


def images_old_src(sym, layout, with_subvariant, warm=None, empty_arch=None):
    """images 1.0 / 1.1 documents: every source image is re-filed under each binary arch of its variant"""
    if warm is not None:
        warm_images_load(warm)
    major = 1
    minor = sym.int("minor", 0, 1)
    images = {}
    src_dicts = {}
    bin_dicts = {}
    for variant, arches, has_src in layout:
        images[variant] = {}
        for a in arches:
            if a == empty_arch:
                images[variant][a] = []          # a binary arch that lists no image of its own: it still receives the source images
                continue
            d = image_dict(sym, "%s_%s" % (variant, a), a)
            if not with_subvariant:
                del d["subvariant"]
            images[variant][a] = [d]
            bin_dicts[(variant, a)] = d
        if has_src:
            d = image_dict(sym, "%s_src" % variant, "src")
            d2 = image_dict(sym, "%s_src2" % variant, "src")          # a second source image (e.g. a two-disc source set)
            d2["disc_number"] = 2
            if not with_subvariant:
                del d["subvariant"]
                del d2["subvariant"]
            images[variant]["src"] = [d, d2]
            src_dicts[variant] = d
            src_dicts[variant + "/2"] = d2
    if not with_subvariant:
        sym.assume(minor == 0)          # subvariant is mandatory from 1.1
    doc = {"header": {"version": "%d.%d" % (major, minor), "type": "productmd.images"},
           "payload": {"compose": {"id": "Fedora-20-20131212.0", "type": "production", "date": "20131212", "respin": 0}, "images": images}}
    im = Images()
    try:
        im.loads(json.dumps(doc))
    except ValueError:
        # identity collisions between the symbolic images (1.1) are C09's business
        return
    sym.cover("loaded")
    for variant, arches, has_src in layout:
        sym.check("arches[%s]" % variant, sorted(im.images[variant].keys()) == sorted(arches))
        for a in arches:
            if a == empty_arch and not has_src:
                continue
            cell = list(im.images[variant][a])
            own = 0 if a == empty_arch else 1
            sym.check("count[%s,%s]" % (variant, a), len(cell) == (2 + own if has_src else own))
            if own:
                sym.check("binary-kept[%s,%s]" % (variant, a), sym.or_(*[sym.same(g.path, bin_dicts[(variant, a)]["path"]) for g in cell]))
            if has_src:
                for key in (variant, variant + "/2"):
                    s = src_dicts[key]
                    sym.check("source-refiled[%s,%s]" % (key, a),
                              sym.or_(*[sym.and_(sym.same(g.path, s["path"]), g.arch == "src", sym.same(g.checksums, s["checksums"]),
                                                 sym.same(g.size, s["size"]), sym.same(g.mtime, s["mtime"])) for g in cell]))
    text = im.dumps()
    out = json.loads(text)
    sym.cover("rewritten")
    for variant in out["payload"]["images"]:
        keys = sorted(out["payload"]["images"][variant].keys())
        sym.check("written-keys[%s]" % variant, sym.not_(sym.or_("src" in keys, "nosrc" in keys)))
        sym.check("written-keys-known[%s]" % variant, all(k in RPM_ARCHES for k in keys))
    sym.check("written-as-current-version", out["header"]["version"] == "1.2")


def rpm_entry(sym, tag, typ):
    path = sym.str("path_" + tag, 3, minlen=1)
    sym.assume(sym.not_(path.startswith("/")))          # absolute paths are (rightly) refused
    return {"path": path, "sigkey": sym.str("sig_" + tag, 3, alphabet="hexlower") if len(tag) % 2 else None, "type": typ}


SRPM_A = "glibc-0:2.18-11.fc20.src"
SRPM_B = "bash-0:4.2-1.fc20.src"


SPELLINGS = {"canonical": "%s", "rpm-suffix": "%s.rpm", "dir-prefix": "Packages/g/%s", "dir-and-suffix": "SRPMS/%s.rpm"}


def rpms_old_src(sym, layout, twice=False, spelling="canonical"):
    """rpms 0.3 documents: every source RPM is re-filed under each binary arch that lists packages built from it.
    spelling: how the old document spells its source-package keys (the same way in the binary and in the src section); the loaded
    manifest is keyed canonically either way"""
    manifest = {}
    sp = SPELLINGS[spelling]
    expect = {}
    minor = sym.int("minor", 0, 3)
    for variant, arches, has_src in layout:
        manifest[variant] = {}
        for ai, a in enumerate(arches):
            srpms = [SRPM_A] if ai == 0 else [SRPM_A, SRPM_B]
            manifest[variant][a] = {}
            for s in srpms:
                name = s.split("-")[0]
                e1 = rpm_entry(sym, "%s_%s_%s" % (variant, a, name), "package")
                e2 = rpm_entry(sym, "%s_%s_%s_dbg" % (variant, a, name), "debug")
                manifest[variant][a][sp % s] = {"%s-0:1-1.%s" % (name, a): e1, "%s-debuginfo-0:1-1.%s" % (name, a): e2}
                expect[(variant, a, s)] = (name, e1, e2)
        if has_src:
            manifest[variant]["src"] = {}
            for s in (SRPM_A, SRPM_B):
                manifest[variant]["src"][sp % s] = rpm_entry(sym, "%s_src_%s" % (variant, s.split("-")[0]), "source")
    doc = {"header": {"version": "0.%d" % minor},
           "payload": {"compose": {"id": "Fedora-20-20131212.0", "type": "production", "date": "20131212", "respin": 0}, "manifest": manifest}}
    m = Rpms()
    if twice:
        # the caller parsed the file itself and hands the same document to two objects: the reader leaves it as it was
        Rpms().deserialize(doc)
        m.deserialize(doc)
    else:
        m.loads(json.dumps(doc))
    sym.cover("loaded")
    for variant, arches, has_src in layout:
        sym.check("arches[%s]" % variant, sorted(m.rpms[variant].keys()) == sorted(arches))
    for (variant, a, s), (name, e1, e2) in expect.items():
        got = m.rpms[variant][a][s]
        has_src = [h for v, ar, h in layout if v == variant][0]
        want = {
            "%s-0:1-1.%s" % (name, a): {"path": e1["path"], "sigkey": e1["sigkey"], "category": "binary"},
            "%s-debuginfo-0:1-1.%s" % (name, a): {"path": e2["path"], "sigkey": e2["sigkey"], "category": "debug"},
        }
        if has_src:
            se = manifest[variant]["src"][sp % s]
            want[s] = {"path": se["path"], "sigkey": se["sigkey"], "category": "source"}
        sym.check("entries[%s,%s,%s]" % (variant, a, s.split("-")[0]), got == want)
    out = json.loads(m.dumps())
    sym.cover("rewritten")
    for variant in out["payload"]["rpms"]:
        keys = sorted(out["payload"]["rpms"][variant].keys())
        sym.check("written-keys[%s]" % variant, sym.not_(sym.or_("src" in keys, "nosrc" in keys)))
    sym.check("written-as-current-version", out["header"]["version"] == "1.2")
    sym.check("written-type", out["header"]["type"] == "productmd.rpms")


LAYOUTS = [
    [("Server", ["x86_64"], True)],
    [("Server", ["x86_64", "s390x"], True)],
    [("Server", ["x86_64", "ppc64le", "aarch64"], True), ("Client", ["x86_64"], False)],
    [("Server", ["x86_64"], False), ("Workstation", ["x86_64", "i386"], True)],
    [("Server", ["x86_64"], True), ("Client", ["x86_64", "s390x"], True)],        # two variants, each with its own src table, sharing packages and arches
]


def jobs(tier, seed):
    big = tier == "thorough"
    out = [
        {"harness": "images_add_arch", "params": {"n": 14 if big else 12}},
        {"harness": "rpms_add_arch", "params": {"n": 14 if big else 12}},
        {"harness": "images_add_arch", "params": {"n": 8 if big else 6, "versioned": True}},
    ]
    for kind in ("rpms", "images"):
        for same in (True, False):
            out.append({"harness": "add_arch_history", "params": {"kind": kind, "n": 12 if big else 8, "same": same}})
    # the same variant names with other arch sets were loaded before, in the same process
    out.append({"harness": "images_old_src", "params": {"layout": LAYOUTS[1], "with_subvariant": True,
                                                       "warm": [("Server", ["x86_64", "ppc64le", "aarch64"], True), ("Client", ["i386"], True)]}})
    out.append({"harness": "images_old_src", "params": {"layout": LAYOUTS[4], "with_subvariant": False, "warm": LAYOUTS[2]}})
    out.append({"harness": "images_old_src", "params": {"layout": LAYOUTS[1], "with_subvariant": True, "empty_arch": "s390x"}})
    out.append({"harness": "images_old_src", "params": {"layout": LAYOUTS[2], "with_subvariant": False, "empty_arch": "aarch64"}})
    for lay in LAYOUTS:
        for ws in (True, False):
            out.append({"harness": "images_old_src", "params": {"layout": lay, "with_subvariant": ws}})
        out.append({"harness": "rpms_old_src", "params": {"layout": lay}})
        sp = sorted(SPELLINGS)[1:]
        for spelling in (sp if big else [sp[(len(out) + seed) % len(sp)]]):
            out.append({"harness": "rpms_old_src", "params": {"layout": lay, "spelling": spelling}})
        if lay in (LAYOUTS[1], LAYOUTS[4]):
            out.append({"harness": "rpms_old_src", "params": {"layout": lay, "twice": True}})
    return out


META = {
    "expected_covers": {"add_arch_history": ["called"], "images_add_arch": ["called"], "rpms_add_arch": ["called"], "images_old_src": ["loaded", "rewritten"],
                        "rpms_old_src": ["loaded", "rewritten"]},
    "assumptions": [
        "add: the architecture argument is an arbitrary string up to 12 (thorough 14) characters; membership in the real 61-entry table is one formula",
        "Images.add also on manifests whose header version is any 'M.N' with M in 0..2, N in 0..3 (legacy manifests are built that way)",
        "histories: three adds on one manifest (the same arch three times, or a second arbitrary one in between), arch strings up to 8 (thorough 12) characters",
        "old documents: layouts from a catalogue (1-2 variants, 1-3 binary arches, src entry present/absent), every leaf symbolic; "
        "images header version 1.0/1.1 and rpms header version 0.0-0.3 as a symbolic integer; a variant with only a src entry is outside the claim",
        "old images documents in which one binary arch lists no image of its own (it still receives the source images)",
        "old rpms documents spell their source-package keys canonically, with a '.rpm' suffix, with a directory prefix or both (the same way in the binary and the src section)",
        "JSON text layer replaced by the DocText stub",
        "histories across objects: before an old images document is converted, another one with the same variant names and other arch sets was loaded into another object",
    ],
}
