"""C14 - release ids round-trip; the validity predicates accept exactly the documented names."""
from productmd.common import (is_valid_release_short, is_valid_release_version, is_valid_release_type,
                              create_release_id, parse_release_id, RELEASE_TYPES)

PROPERTY = "C14"

SHORTC = ["a-z", "0-9", "-"]


def spec_short(sym, s):
    """a lowercase letter followed by lowercase alphanumerics in non-empty dash-separated segments"""
    return sym.and_(len(s) >= 1,
                    sym.char_at_in(s, 0, ["a-z"]),
                    sym.chars_in(s, SHORTC),
                    sym.not_("--" in s),
                    sym.not_(s.endswith("-")))


def spec_version(sym, s):
    """dot-separated decimal integers, or any non-empty string not starting with a digit"""
    numeric = sym.and_(sym.chars_in(s, ["0-9", "."]),
                       sym.not_(".." in s),
                       sym.not_(s.endswith(".")))
    return sym.and_(len(s) >= 1,
                    sym.or_(sym.not_(sym.char_at_in(s, 0, ["0-9"])), numeric))


def pred_short(sym, n):
    s = sym.str("s", n)
    got = is_valid_release_short(s)
    sym.cover("evaluated")
    sym.check("short-accepts-exactly-spec", sym.iff(got, spec_short(sym, s)))
    sym.check("returns-bool", isinstance(got, bool))


def pred_type(sym, n):
    s = sym.str("s", n)
    got = is_valid_release_type(s)
    sym.cover("evaluated")
    sym.check("type-accepts-exactly-spec", sym.iff(got, spec_short(sym, s)))
    sym.check("returns-bool", isinstance(got, bool))


def pred_version(sym, n):
    s = sym.str("s", n)
    got = is_valid_release_version(s)
    sym.cover("evaluated")
    sym.check("version-accepts-exactly-spec", sym.iff(got, spec_version(sym, s)))
    sym.check("returns-bool", isinstance(got, bool))


def create_refuses(sym, n, with_bp):
    """create_release_id refuses precisely what the predicates refuse (and only with ValueError)"""
    short = sym.str("short", n)
    version = sym.str("version", n)
    rtype = sym.str("rtype", n)
    ok = sym.and_(spec_short(sym, short), spec_version(sym, version), spec_short(sym, rtype))
    if with_bp:
        bp_short = sym.str("bp_short", n, minlen=1)
        bp_version = sym.str("bp_version", n)
        bp_type = sym.str("bp_type", n)
        ok = sym.and_(ok, spec_short(sym, bp_short), spec_version(sym, bp_version), spec_short(sym, bp_type))
    try:
        if with_bp:
            rid = create_release_id(short, version, rtype, bp_short, bp_version, bp_type)
        else:
            rid = create_release_id(short, version, rtype)
        raised = False
    except ValueError:
        raised = True
    sym.cover("called")
    sym.check("refuses-iff-invalid", sym.iff(raised, sym.not_(ok)))


# the words of the type table themselves (and their dash-separated parts) as short names and versions: an id in which the text of a
# type occurs more than once
WORDS = sorted(set(RELEASE_TYPES) | set(w for t in RELEASE_TYPES for w in t.split("-")))


def roundtrip(sym, rtype, n_short, n_ver, with_bp, bp_type, words=False):
    """parse_release_id(create_release_id(x)) == x for everything create_release_id accepts"""
    if words:
        short = sym.one_of("short", WORDS)
        version = sym.one_of("version", [w for w in WORDS if "-" not in w] + ["7", "7.1"])
    else:
        short = sym.str("short", n_short)
        version = sym.str("version", n_ver)
    sym.assume(sym.no_char(version, "-@"))
    try:
        if with_bp:
            bp_short = sym.str("bp_short", n_short, minlen=1)
            bp_version = sym.str("bp_version", n_ver)
            sym.assume(sym.no_char(bp_version, "-@"))
            rid = create_release_id(short, version, rtype, bp_short, bp_version, bp_type)
        else:
            rid = create_release_id(short, version, rtype)
    except ValueError:
        return
    sym.cover("created")
    got = parse_release_id(rid)
    sym.cover("parsed")
    sym.check("short", got["short"] == short)
    sym.check("version", got["version"] == version)
    sym.check("type", got["type"] == rtype)
    if with_bp:
        sym.check("bp_short", got["bp_short"] == bp_short)
        sym.check("bp_version", got["bp_version"] == bp_version)
        sym.check("bp_type", got["bp_type"] == bp_type)
        sym.check("keys", sorted(got.keys()) == ["bp_short", "bp_type", "bp_version", "short", "type", "version"])
    else:
        sym.check("keys", sorted(got.keys()) == ["short", "type", "version"])


def history(sym, first_layered, rtype, bp_type):
    """the parts returned for an id never depend on which ids were parsed before, nor on what the caller did with earlier
    results: a layered id and the plain id of the same release are parsed one after the other (both orders)"""
    short = sym.str("short", 3, minlen=1, alphabet=["a-z"])
    version = sym.str("version", 3, minlen=1, alphabet=["0-9", "."])
    bp_short = sym.str("bp_short", 3, minlen=1, alphabet=["a-z"])
    bp_version = sym.str("bp_version", 2, minlen=1, alphabet=["0-9"])
    try:
        plain = create_release_id(short, version, rtype)
        layered = create_release_id(short, version, rtype, bp_short, bp_version, bp_type)
    except ValueError:
        return
    sym.cover("created")
    ids = [layered, plain] if first_layered else [plain, layered]
    first = parse_release_id(ids[0])
    first["short"] = "edited"          # the caller owns what it was given
    got = parse_release_id(ids[1])
    sym.cover("parsed")
    sym.check("short", got["short"] == short)
    sym.check("version", got["version"] == version)
    sym.check("type", got["type"] == rtype)
    if first_layered:
        sym.check("keys-of-the-plain-id", sorted(got.keys()) == ["short", "type", "version"])
    else:
        sym.check("bp_short", got["bp_short"] == bp_short)
        sym.check("bp_version", got["bp_version"] == bp_version)
        sym.check("bp_type", got["bp_type"] == bp_type)
        sym.check("keys-of-the-layered-id", sorted(got.keys()) == ["bp_short", "bp_type", "bp_version", "short", "type", "version"])
    again = parse_release_id(ids[1])
    sym.check("same-answer-again", sorted(again.items()) == sorted(got.items()))


def jobs(tier, seed):
    big = tier == "thorough"
    n = 16 if big else 10
    out = [
        {"harness": "pred_short", "params": {"n": n}},
        {"harness": "pred_type", "params": {"n": n}},
        {"harness": "pred_version", "params": {"n": n}},
        {"harness": "create_refuses", "params": {"n": 8 if big else 6, "with_bp": False}},
        {"harness": "create_refuses", "params": {"n": 6 if big else 4, "with_bp": True}},
    ]
    for fl in (True, False):
        for rtype, bpt in (("updates", "ga"), ("ga", "updates"), ("eus", "ga")) if not big else [(a, b) for a in ("ga", "updates", "eus", "fast") for b in ("ga", "updates")]:
            out.append({"harness": "history", "params": {"first_layered": fl, "rtype": rtype, "bp_type": bpt}})
    ns, nv = (10, 8) if big else (6, 5)
    for rtype in RELEASE_TYPES:
        out.append({"harness": "roundtrip", "params": {"rtype": rtype, "n_short": ns, "n_ver": nv, "with_bp": False, "bp_type": None}})
    for rtype in RELEASE_TYPES:
        out.append({"harness": "roundtrip", "params": {"rtype": rtype, "n_short": 0, "n_ver": 0, "with_bp": False, "bp_type": None, "words": True}})
    bp_types = RELEASE_TYPES if big else ["ga", "updates", "updates-testing", "e4s"]
    rtypes = RELEASE_TYPES if big else ["ga", "updates-testing", "fast"]
    for rtype in rtypes:
        for bpt in bp_types:
            out.append({"harness": "roundtrip", "params": {"rtype": rtype, "n_short": ns - 2, "n_ver": nv - 1, "with_bp": True, "bp_type": bpt}})
    return out


META = {
    "expected_covers": {"history": ["created", "parsed"], "pred_short": ["evaluated"], "pred_type": ["evaluated"], "pred_version": ["evaluated"],
                        "create_refuses": ["called"], "roundtrip": ["created", "parsed"]},
    "assumptions": [
        "round trip: versions free of '-' and '@' (the property's own quantifier)",
        "strings range over all Unicode code points except surrogates, up to the lengths in evidence.bounds",
        "predicates: every string up to 10 (thorough 16) characters against an independent statement of the documented rule; create_release_id refusals: shorts/versions up to 6 (4 with base product)",
        "round trip: short <= 6, version <= 5 (thorough 10/8) for every release type, with a base product for a selection (thorough: all) of type pairs",
        "word jobs: short name and version drawn from the words of the release type table and their dash-separated parts (an id in which the text of a type occurs twice)",
        "call histories: the layered and the plain id of one release (short <= 3 letters, version <= 3 over digits and dots) parsed one after the other in both orders, the first result edited by the caller",
    ],
}
