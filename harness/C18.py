"""C18 - a dump that fails validation leaves the destination file untouched."""
import os

from domains import OBJECT_KINDS as KINDS, make_value, in_domain
import C06

PROPERTY = "C18"


def read_bytes(path):
    if not os.path.exists(path):
        return None
    with open(path, "rb") as f:
        return f.read()


def failed_dump(sym, fmt, position, attr, rule, maxlen, k, preexisting, any_value=False, linked=False, name_len=12, symlink=False):
    """a valid object was written to `path`; then one field (anywhere) becomes invalid and dump(path) is called again.
    any_value: the field gets an arbitrary value, inside or outside its documented domain - whatever the reason a dump is
    refused for (also a writer that is stricter than the documented rule), the destination must be left alone"""
    top, holder = C06.locate(fmt, position, k)
    d = sym.scratch_dir()
    # name_len: the destination's own name is up to NAME_MAX (255) characters long - no sibling with a longer name can be created next to it
    path = os.path.join(d, "metadata.out" if name_len == 12 else "m" * (name_len - 4) + ".out")
    if preexisting and symlink:
        # the destination is a symbolic link to the last good copy (a 'latest' link): a refused dump leaves link and target alone
        real = os.path.join(d, "last-good.copy")
        top.dump(real)
        os.symlink("last-good.copy", path)
    elif preexisting:
        top.dump(path)
        if linked:
            os.link(path, os.path.join(d, "hardlinked.copy"))          # compose tooling hardlinks metadata into other trees
    before = read_bytes(path)
    kind = sym.choice("kind", KINDS)
    v = make_value(sym, kind, "v", maxlen, rule)
    dom = in_domain(sym, rule, kind, v)
    if not any_value:
        if dom is None or dom is True:
            return
        sym.assume(sym.not_(dom))
    setattr(holder, attr, v)
    sym.cover("corrupted")
    try:
        top.dump(path)
        raised = False
    except (ValueError, TypeError):
        raised = True
    if not raised:
        return                      # accepting an invalid object is C06's concern
    sym.cover("dump-failed")
    after = read_bytes(path)
    if preexisting:
        sym.check("previous-file-intact", after == before)
        sym.check("previous-file-not-empty", after is not None and len(after) > 0)
        if symlink:
            sym.check("still-the-same-link", os.path.islink(path) and os.readlink(path) == "last-good.copy")
        if linked:
            sym.check("hardlinked-copy-intact", read_bytes(os.path.join(d, "hardlinked.copy")) == before)
    else:
        sym.check("no-file-created", after is None)


BAD_NAMES = {"int": 7, "none": None, "bytes": b"vmlinuz", "tuple": ("a", "b"), "float": 1.5, "bool": True,
             # not bad at all: a second name that differs from an existing one only in letter case (option names are case sensitive here)
             "case-twin": "KERNEL"}


def tree_table_names(sym, table, kind, preexisting):
    """a .treeinfo whose only flaw is a name (an INI option name) that is not text - an image name in [images-*], a checksum path - next to
    proper names: whoever refuses it, and whenever, the destination is left alone"""
    ti, objs = C06.base_treeinfo(0)
    d = sym.scratch_dir()
    path = os.path.join(d, "treeinfo.out")
    if preexisting:
        ti.dump(path)
    before = read_bytes(path)
    bad = BAD_NAMES[kind]
    if kind == "case-twin":
        ti.images.images[ti.tree.arch]["kernel"] = "images/pxeboot/vmlinuz"
        ti.images.images["xen"]["kernel"] = "images/pxeboot/vmlinuz-xen"
        ti.checksums.checksums["kernel"] = ["sha256", "b" * 64]
    if table == "images":
        ti.images.images[ti.tree.arch][bad] = "images/x"
    elif table == "images-xen":
        ti.images.images["xen"][bad] = "images/x"
    else:
        ti.checksums.checksums[bad] = ["sha256", "a" * 64]
    sym.cover("corrupted")
    try:
        ti.dump(path)
        raised = False
    except Exception:          # whoever refuses it, with whatever exception
        raised = True
    if not raised:
        sym.cover("written")
        return
    sym.cover("dump-failed")
    after = read_bytes(path)
    if preexisting:
        sym.check("previous-file-intact", after == before)
    else:
        sym.check("no-file-created", after is None)


def nonfinite_unvalidated(sym, where, value):
    """fields that no validator looks at (sizes of extra files, checksum values, path tables, the rpms / modules tables) may hold a
    number no strict JSON writer accepts: whether the library writes it or refuses it, a refusal leaves the destination alone"""
    from productmd.extra_files import ExtraFiles
    from productmd.rpms import Rpms
    from productmd.modules import Modules
    x = {"inf": float("inf"), "-inf": float("-inf"), "nan": float("nan")}[value]
    if where == "extra-size":
        top = C06.base_compose_only(ExtraFiles)
        top.add("Server", "x86_64", "Server/x86_64/os/GPL", 7, {"md5": "abc"})
        poke = lambda: top.add("Server", "x86_64", "Server/x86_64/os/EULA", x, {"md5": "def"})
    elif where == "image-checksum":
        top, imgs = C06.base_images(0)
        poke = lambda: imgs[1].checksums.__setitem__("crc", x)
    elif where == "variant-path":
        top, objs = C06.base_composeinfo(0)
        poke = lambda: objs["Client"].paths.os_tree.__setitem__("x86_64", x)
    elif where == "rpms-entry":
        top = C06.base_compose_only(Rpms)
        top.add("Server", "x86_64", "glibc-0:2.18-11.fc20.x86_64", "Server/x86_64/os/g/glibc.rpm", None, "binary", "glibc-0:2.18-11.fc20.src.rpm")
        poke = lambda: top.rpms["Server"]["x86_64"]["glibc-0:2.18-11.fc20.src"]["glibc-0:2.18-11.fc20.x86_64"].__setitem__("size", x)
    else:
        top = C06.base_compose_only(Modules)
        top.add("Server", "x86_64", "ruby:2.5:20180123:c0ffee", "tag-1", "Server/x86_64/os/repodata/m.yaml", "binary", ["ruby-0:2.5-1.x86_64"])
        poke = lambda: top.modules["Server"]["x86_64"]["ruby:2.5:20180123:c0ffee"]["metadata"].__setitem__("weight", x)
    d = sym.scratch_dir()
    path = os.path.join(d, "metadata.out")
    top.dump(path)
    before = read_bytes(path)
    poke()
    sym.cover("corrupted")
    try:
        top.dump(path)
        raised = False
    except (ValueError, TypeError):
        raised = True
    if not raised:
        return
    sym.cover("dump-failed")
    sym.check("previous-file-intact", read_bytes(path) == before)


def jobs(tier, seed):
    big = tier == "thorough"
    out = []
    k = seed % 10

    def add(fmt, position, fields):
        for i, (attr, rule, maxlen) in enumerate(fields):
            for pre in ((True, False) if big or (i + seed) % 3 == 0 else (True,)):
                out.append({"harness": "failed_dump", "params": {"fmt": fmt, "position": position, "attr": attr, "rule": rule, "maxlen": maxlen, "k": k,
                                                                "preexisting": pre, "linked": bool(pre and (big or (i + len(position) + seed) % 3 == 1))}})
                if (i + len(position) + len(out) + seed) % 4 == 0:
                    out[-1]["params"]["name_len"] = [255, 250, 246, 241][(i + len(out)) % 4]
                elif pre and not out[-1]["params"]["linked"] and (i + len(out) + seed) % 3 == 0:
                    out[-1]["params"]["symlink"] = True
    def add_any(fmt, position, fields):
        for i, (attr, rule, maxlen) in enumerate(fields):
            if big or (i + seed) % 2 == 0 or fmt == "discinfo":
                out.append({"harness": "failed_dump", "params": {"fmt": fmt, "position": position, "attr": attr, "rule": rule, "maxlen": min(maxlen, 6), "k": k,
                                                                "preexisting": bool((i + seed) % 3), "any_value": True}})
    add_any("discinfo", "top", C06.DISCINFO_FIELDS)
    add_any("composeinfo", "compose", C06.COMPOSE_FIELDS)
    add_any("composeinfo", "release", C06.RELEASE_FIELDS)
    add_any("composeinfo", "v:Server", C06.VARIANT_FIELDS)
    add_any("images", "img:0", C06.IMAGE_FIELDS)
    add_any("treeinfo", "release", C06.TREE_RELEASE_FIELDS)
    add_any("treeinfo", "tree", C06.TREE_FIELDS)
    add_any("treeinfo", "media", C06.TREE_MEDIA_FIELDS)
    add_any("treeinfo", "v:Server", C06.TREE_VARIANT_FIELDS)
    for wi, where in enumerate(("extra-size", "image-checksum", "variant-path", "rpms-entry", "modules-entry")):
        for vi, value in enumerate(("inf", "-inf", "nan")):
            if big or (wi + vi + seed) % 2 == 0:
                out.append({"harness": "nonfinite_unvalidated", "params": {"where": where, "value": value}})
    for ti_, table in enumerate(("images", "images-xen", "checksums")):
        for ki, kind in enumerate(sorted(BAD_NAMES)):
            if big or (ti_ + ki + seed) % 2 == 0:
                out.append({"harness": "tree_table_names", "params": {"table": table, "kind": kind, "preexisting": bool((ti_ + ki) % 3)}})
    add("composeinfo", "compose", C06.COMPOSE_FIELDS)
    add("composeinfo", "release", C06.RELEASE_FIELDS)
    add("composeinfo", "base_product", C06.BP_FIELDS)
    for uid in ("Server", "Server-HA", "Client"):
        add("composeinfo", "v:" + uid, C06.VARIANT_FIELDS)
    add("composeinfo", "r:Server-SAT", [f for f in C06.RELEASE_FIELDS if f[0] != "is_layered"][:4])
    add("images", "compose", [f for f in C06.COMPOSE_FIELDS if f[0] != "final"])
    for i in ((0, 1, 2) if big else (0, 2)):
        add("images", "img:%d" % i, C06.IMAGE_FIELDS)
    for fmt in ("rpms", "modules", "extra_files"):
        add(fmt, "compose", C06.COMPOSE_FIELDS)
    add("discinfo", "top", C06.DISCINFO_FIELDS)
    add("treeinfo", "release", C06.TREE_RELEASE_FIELDS)
    add("treeinfo", "base_product", C06.TREE_BP_FIELDS)
    add("treeinfo", "tree", C06.TREE_FIELDS)
    add("treeinfo", "media", C06.TREE_MEDIA_FIELDS)
    for uid in ("Server", "Server-HA"):
        add("treeinfo", "v:" + uid, C06.TREE_VARIANT_FIELDS)
    return out


META = {
    "expected_covers": {"failed_dump": ["corrupted", "dump-failed"], "nonfinite_unvalidated": ["corrupted"], "tree_table_names": ["corrupted", "dump-failed"]},
    "assumptions": [
        "the destination is a real file in a scratch directory outside /repo and /verif; open/read/exists are the real system calls; in a third of the jobs "
        "the existing destination has a second hard link (as compose tooling creates them)",
        "fault positions: every documented field of every nested object of the base objects of C06 (compose, release, base product, variants at depth 1-2, "
        "layered-product release, images in two cells, discinfo), invalidated by a symbolic value of any kind outside its domain - "
        "i.e. each nested validator is made to fail, whether the top-level check or only a nested writer detects it",
        "any-value jobs: the same positions with an arbitrary value (strings up to 6 characters, integers, booleans, None, containers), "
        "inside or outside the documented domain: every refusal, for whatever reason, must leave the destination alone",
        "in a quarter of the jobs the destination's file name is 241-255 characters long (NAME_MAX and just below: no longer-named sibling can be created)",
        "in some jobs the existing destination is a symbolic link to the last good copy",
        "tree_table_names: an image name or a checksum path of a tree that is not text (int, None, bytes, tuple, float, bool) next to proper names; concrete inputs",
        "treeinfo (its own dump method): release, base product, tree, media and variant fields of the C06 base tree",
    ],
}
