"""C03 - RPM, module and extra-file manifests survive a write/read cycle unchanged."""
import histories
from productmd.rpms import Rpms
from productmd.modules import Modules
from productmd.extra_files import ExtraFiles
from productmd.composeinfo import COMPOSE_TYPES

PROPERTY = "C03"

# concrete key material (these become dict keys); everything else is symbolic
RPM_POOL = [
    # (nevra argument, category, srpm argument)
    ("glibc-0:2.18-11.fc20.x86_64.rpm", "binary", "glibc-0:2.18-11.fc20.src.rpm"),
    ("glibc-debuginfo-0:2.18-11.fc20.x86_64", "debug", "glibc-0:2.18-11.fc20.src.rpm"),
    ("glibc-0:2.18-11.fc20.src.rpm", "source", None),
    ("Packages/p/python3-docs-3:3.4.1-2.fc21.noarch.rpm", "binary", "python3-docs-3:3.4.1-2.fc21.src"),
    ("gtk+3-12:3.10.6-1.el7_2.i686", "binary", "gtk+3-12:3.10.6-1.el7_2.nosrc"),
    ("gtk+3-12:3.10.6-1.el7_2.nosrc", "source", None),
]
CELLS = [("Server", "x86_64"), ("Server", "s390x"), ("Client", "x86_64"), ("Server-optional", "x86_64")]
MODULE_POOL = ["ruby:2.5:20180123:c0ffee", "perl:5.26", "dir/nodejs:10:2018"]
# canonical UID (directory stripped) and (name, stream, version, context) of the pool entries
MODULE_CANON = [("ruby:2.5:20180123:c0ffee", ("ruby", "2.5", "20180123", "c0ffee")), ("perl:5.26", ("perl", "5.26", "", "")),
                ("nodejs:10:2018", ("nodejs", "10", "2018", ""))]
CATS = ["binary", "debug", "source"]


class Sink(object):
    def write(self, s):
        pass


def clone(x):
    if isinstance(x, dict):
        return dict((k, clone(v)) for k, v in x.items())
    if isinstance(x, list):
        return [clone(v) for v in x]
    return x


def fill_compose(sym, m):
    m.compose.id = "Fedora-20-20131212.0"
    m.compose.type = sym.one_of("c_type", COMPOSE_TYPES)
    m.compose.date = sym.str("c_date", 8, minlen=8, alphabet="digits")
    m.compose.respin = sym.int("c_respin")


def compose_facts(sym, back, m):
    sym.check("compose.id", back.compose.id == m.compose.id)
    sym.check("compose.type", back.compose.type == m.compose.type)
    sym.check("compose.date", back.compose.date == m.compose.date)
    sym.check("compose.respin", back.compose.respin == m.compose.respin)


# canonical keys of the pool entries (name-epoch:version-release.arch, no directory, no .rpm)
RPM_CANON = ["glibc-0:2.18-11.fc20.x86_64", "glibc-debuginfo-0:2.18-11.fc20.x86_64", "glibc-0:2.18-11.fc20.src",
             "python3-docs-3:3.4.1-2.fc21.noarch", "gtk+3-12:3.10.6-1.el7_2.i686", "gtk+3-12:3.10.6-1.el7_2.nosrc"]
SRPM_CANON = ["glibc-0:2.18-11.fc20.src", "glibc-0:2.18-11.fc20.src", None, "python3-docs-3:3.4.1-2.fc21.src", "gtk+3-12:3.10.6-1.el7_2.nosrc", None]


def rpms_roundtrip(sym, history):
    m = Rpms()
    fill_compose(sym, m)
    expected = {}          # the documented layout, built from the calls (independent of Rpms.add)
    try:
        for step, (cell, ri) in enumerate(history):
            variant, arch = CELLS[cell]
            nevra, category, srpm = RPM_POOL[ri]
            sigkey = sym.str("sigkey%d" % step, 4, alphabet=["0-9", "a-f", "A-F"]) if (step + ri) % 2 else None
            path = sym.str("path%d" % step, 4, minlen=1)
            sym.assume(sym.not_(path.startswith("/")))
            m.add(variant, arch, nevra, path, sigkey, category, srpm)
            key = SRPM_CANON[ri] if SRPM_CANON[ri] is not None else RPM_CANON[ri]
            expected.setdefault(variant, {}).setdefault(arch, {}).setdefault(key, {})[RPM_CANON[ri]] = {
                "sigkey": sigkey.lower() if sigkey is not None else None, "path": path, "category": category}
        sym.check("built-mapping-follows-the-calls", m.rpms == expected)
    except (ValueError, TypeError):
        return
    # every add call was accepted: the manifest must be written (a refusal here escapes the harness and is reported)
    before = clone(m.rpms)
    text = m.dumps()
    sym.cover("written")
    if len(history) % 2:
        histories.warm("rpms")
        first = Rpms()
        first.loads(text)
        histories.scribble_mapping(first.rpms)
    back = Rpms()
    back.loads(text)
    sym.cover("reloaded")
    compose_facts(sym, back, m)
    sym.check("mapping-read-back", back.rpms == before)
    sym.check("mapping-not-mutated-by-dump", m.rpms == before)
    text2 = back.dumps()
    sym.check("second-dump-identical", text2 == text)
    # the re-read manifest is a manifest like any other: a further add lands where the documented layout says, and is written
    variant, arch = CELLS[len(history) % len(CELLS)]
    ri = (len(history) + history[0][1]) % len(RPM_POOL)
    nevra, category, srpm = RPM_POOL[ri]
    path = sym.str("path_after", 3, minlen=1)
    sym.assume(sym.not_(path.startswith("/")))
    back.add(variant, arch, nevra, path, None, category, srpm)
    key = SRPM_CANON[ri] if SRPM_CANON[ri] is not None else RPM_CANON[ri]
    expected.setdefault(variant, {}).setdefault(arch, {}).setdefault(key, {})[RPM_CANON[ri]] = {"sigkey": None, "path": path, "category": category}
    sym.check("add-after-reload-follows-the-calls", back.rpms == expected)
    third = Rpms()
    third.loads(back.dumps())
    sym.check("add-after-reload-read-back", third.rpms == expected)


def modules_roundtrip(sym, history, share=False):
    """share: the caller passes one and the same list object to every add call (its content as it is at that moment counts)"""
    m = Modules()
    fill_compose(sym, m)
    expected = {}          # the documented layout, built from the calls (independent of Modules.add)
    shared = [sym.str("rpm_shared", 4), "x-0:1-1.noarch"]
    try:
        for step, (cell, mi, cat) in enumerate(history):
            variant, arch = CELLS[cell]
            rpms = shared if share else [sym.str("rpm%d" % step, 4), "x-0:1-1.noarch"]          # a module added twice lists this RPM twice: the list is kept as given
            tag = sym.str("tag%d" % step, 4, minlen=1)
            mdpath = sym.str("mdpath%d" % step, 4, minlen=1)
            sym.assume(sym.not_(mdpath.startswith("/")))
            m.add(variant, arch, MODULE_POOL[mi], tag, mdpath, CATS[cat], rpms)
            uid, (name, stream, version, context) = MODULE_CANON[mi]
            e = expected.setdefault(variant, {}).setdefault(arch, {}).setdefault(uid, {"modulemd_path": {}, "rpms": []})
            e["metadata"] = {"uid": uid, "name": name, "stream": stream, "version": version, "context": context, "koji_tag": tag}
            e["modulemd_path"][CATS[cat]] = mdpath
            e["rpms"] = e["rpms"] + list(rpms)
        sym.check("built-mapping-follows-the-calls", m.modules == expected)
        if share:
            sym.check("callers-list-untouched", len(shared) == 2)
    except (ValueError, TypeError):
        return
    # every add call was accepted: the manifest must be written (a refusal here escapes the harness and is reported)
    before = clone(m.modules)
    text = m.dumps()
    sym.cover("written")
    if len(history) % 2:
        histories.warm("modules")
        first = Modules()
        first.loads(text)
        histories.scribble_mapping(first.modules)
    back = Modules()
    back.loads(text)
    sym.cover("reloaded")
    compose_facts(sym, back, m)
    sym.check("mapping-read-back", back.modules == before)
    text2 = back.dumps()
    sym.check("second-dump-identical", text2 == text)


def extra_roundtrip(sym, history, share=False):
    m = ExtraFiles()
    fill_compose(sym, m)
    expected = {}          # the documented layout, built from the calls (independent of ExtraFiles.add)
    shared = {"sha256": sym.str("sha_shared", 4)}
    try:
        for step, (cell, two) in enumerate(history):
            variant, arch = CELLS[cell]
            cs = shared if share else {"sha256": sym.str("sha%d" % step, 4)}
            if two and not share:
                cs["md5"] = sym.str("md5_%d" % step, 4)
            path = sym.str("file%d" % step, 4, minlen=1)
            size = sym.int("size%d" % step)
            sym.assume(sym.not_(path.startswith("/")))
            m.add(variant, arch, path, size, cs)
            expected.setdefault(variant, {}).setdefault(arch, []).append({"file": path, "size": size, "checksums": dict(cs)})
        sym.check("built-mapping-follows-the-calls", m.extra_files == expected)
        # a per-tree view is written in between (a read-only export): the manifest that is written afterwards is still what the calls said
        for variant in sorted(expected):
            for arch in sorted(expected[variant]):
                m.dump_for_tree(Sink(), variant, arch, sym.str("base_%s_%s" % (variant.replace("-", "_"), arch), 3))
        sym.check("mapping-untouched-by-the-per-tree-views", m.extra_files == expected)
    except (ValueError, TypeError):
        return
    # every add call was accepted: the manifest must be written (a refusal here escapes the harness and is reported)
    before = clone(m.extra_files)
    text = m.dumps()
    sym.cover("written")
    if len(history) % 2:
        histories.warm("extra_files")
        first = ExtraFiles()
        first.loads(text)
        histories.scribble_mapping(first.extra_files)
    back = ExtraFiles()
    back.loads(text)
    sym.cover("reloaded")
    compose_facts(sym, back, m)
    sym.check("mapping-read-back", back.extra_files == before)
    text2 = back.dumps()
    sym.check("second-dump-identical", text2 == text)


def _histories(kind, tier, seed):
    import random
    rnd = random.Random(1000 + seed)
    big = tier == "thorough"
    out = []
    n_hist = 24 if big else 6
    for h in range(n_hist):
        steps = (3 + h % 3) if big else (2 + h % 2)
        if kind == "rpms":
            hist = [(rnd.randrange(len(CELLS)), rnd.randrange(len(RPM_POOL))) for _ in range(steps)]
            if h % 3 == 0:
                hist.append(hist[0])          # repeated add of the same entry
        elif kind == "modules":
            hist = [(rnd.randrange(len(CELLS)), rnd.randrange(len(MODULE_POOL)), rnd.randrange(3)) for _ in range(steps)]
            if h % 2 == 0:
                c, mi, cat = hist[0]
                hist.append((c, mi, (cat + 1) % 3))       # same module in another category
        else:
            hist = [(rnd.randrange(len(CELLS)), bool(rnd.randrange(2))) for _ in range(steps)]
        out.append(hist)
    # fixed histories: the same source package in consecutive calls for different trees, the same RPM under several
    # variants/arches, a source RPM between two binaries, the same module in every category and in two trees
    if kind == "rpms":
        out += [[(0, 0), (2, 1)], [(0, 0), (0, 2), (1, 1), (3, 0)], [(0, 3), (1, 3), (2, 3)], [(0, 4), (0, 5), (2, 4)], [(3, 1), (0, 1), (0, 0)]]
    elif kind == "modules":
        out += [[(0, 0, 0), (0, 0, 1), (0, 0, 2)], [(0, 1, 0), (2, 1, 0), (0, 1, 1)], [(1, 2, 0), (1, 0, 0), (1, 2, 1)]]
    else:
        out += [[(0, True), (0, False), (0, True)], [(0, False), (1, False), (0, True)]]
    return out


def jobs(tier, seed):
    out = []
    for kind, fn in (("rpms", "rpms_roundtrip"), ("modules", "modules_roundtrip"), ("extra", "extra_roundtrip")):
        hs = _histories(kind, tier, seed)
        for hist in hs:
            out.append({"harness": fn, "params": {"history": hist}})
        if kind != "rpms":
            for hist in hs[-3:]:          # the fixed histories again, the caller re-using one list / dict object for every call
                out.append({"harness": fn, "params": {"history": hist, "share": True}})
    return out


META = {
    "expected_covers": {"rpms_roundtrip": ["written", "reloaded"], "modules_roundtrip": ["written", "reloaded"], "extra_roundtrip": ["written", "reloaded"]},
    "assumptions": [
        "JSON text layer replaced by the DocText stub (contract in psx/stubs.py)",
        "for histories of odd length the checked text is first loaded into an object whose mapping the caller then edits in place at every level, after another manifest "
        "of the format was written and read by other objects (harness/histories.py)",
        "histories of 2-4 (quick) / 3-6 (thorough) add calls drawn with VERIF_SEED from a concrete pool of cells, NEVRAs (epochs != 0, dashed/digit names, "
        "src and nosrc source packages, directory prefixes, .rpm suffixes) and module UIDs (2-, 3-, 4-part), including repeated entries; "
        "paths, signing keys, tags, sizes and checksum values symbolic",
    ],
}
