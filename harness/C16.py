"""C16 - checksums recorded in metadata are the true digests of the right files."""
import hashlib

from productmd.treeinfo import TreeInfo, compute_checksum
from productmd.common import SortedConfigParser
from productmd.images import Images, Image

PROPERTY = "C16"

MIB = 1024 ** 2


def digest_of_file(sym, alg, max_size):
    """compute_checksum feeds the hash exactly the file's bytes, in order, for every size"""
    path, size = sym.symbolic_file("size", max_size)
    got = compute_checksum(path, alg)
    with open(path, "rb") as f:
        data = f.read()
    want = hashlib.new(alg, data).hexdigest()
    sym.cover("computed")
    sym.check("digest-of-the-whole-content", got == want)
    sym.check("lower-case", got == got.lower())


def digest_after_rewrite(sym, alg):
    """the digest is that of the content the file has when it is computed: a file that was hashed before and then rewritten in
    place (same size; the modification time may fall into the same second or be preserved) is hashed again"""
    path, size = sym.symbolic_file("image", 2 * MIB + 2)
    sym.assume(size >= 1)
    first = compute_checksum(path, alg)
    sym.cover("computed")
    sym.rewrite_file(path)
    got = compute_checksum(path, alg)
    with open(path, "rb") as f:
        data = f.read()
    want = hashlib.new(alg, data).hexdigest()
    sym.check("digest-of-the-current-content", got == want)


NAME = [["a", "z"], ["A", "Z"], ["0", "9"], "_", "-"]


def _cls(spec):
    return [(ord(a[0]), ord(a[1])) if isinstance(a, list) else (ord(a), ord(a)) for a in spec]


def normalise(components):
    """reference: the documented meaning of a relative path (independent of os.path.normpath)"""
    out = []
    for c in components:
        if isinstance(c, str) and c in ("", "."):
            continue
        if isinstance(c, str) and c == "..":
            if out and not (isinstance(out[-1], str) and out[-1] == ".."):
                out.pop()
            else:
                out.append("..")
            continue
        out.append(c)
    return out


def add_path(sym, kinds, absolute):
    """Checksums.add refuses absolute paths and records the checksum under the normalised relative path"""
    comps = []
    for i, kind in enumerate(kinds):
        if kind == "name":
            comps.append(sym.str("name%d" % i, 3, minlen=1, alphabet=_cls(NAME)))
        else:
            comps.append(kind)
    path = comps[0]
    for c in comps[1:]:
        path = path + "/" + c
    if absolute:
        path = "/" + path
    ti = TreeInfo()
    value = sym.str("value", 4, minlen=1, alphabet="hexlower")
    try:
        ti.checksums.add(path, "sha256", value)
        raised = False
    except ValueError:
        raised = True
    sym.cover("called")
    sym.check("absolute-refused-relative-accepted", raised == absolute)
    if raised:
        sym.check("nothing-recorded", len(ti.checksums.checksums) == 0)
        return
    want = normalise(comps)
    expected = "."
    if want:
        expected = want[0]
        for c in want[1:]:
            expected = expected + "/" + c
    keys = list(ti.checksums.checksums.keys())
    sym.check("one-entry", len(keys) == 1)
    stored = [k for k in ti.checksums.checksums]
    entry = ti.checksums.checksums[stored[0]]
    sym.check("recorded-under-normalised-path", ti.checksums.checksums.get(expected) is entry)
    sym.check("type-and-value", sym.and_(entry[0] == "sha256", entry[1] == value))


# paths as callers spell them (redundant components, names and directories that begin with a dot) and what they normalise to
WRITTEN_PATHS = [("./.discinfo", ".discinfo"), (".hidden//x", ".hidden/x"), ("images/../.treeinfo", ".treeinfo"), ("a/./b", "a/b"),
                 ("LiveOS//squashfs.img", "LiveOS/squashfs.img"), ("..data/x", "..data/x"), ("./..a", "..a")]


def written_read_back(sym, picks):
    """checksums recorded by add() for several paths are written with the tree and read back: every normalised path carries exactly
    the type and value given for it - in the table, in the written file and after the reload"""
    import C06
    ti, _ = C06.base_treeinfo(0)
    ti.checksums.checksums.clear()
    want = {}
    for i in picks:
        spelled, norm = WRITTEN_PATHS[i]
        t = sym.str("type%d" % i, 4, minlen=1, alphabet="alnum")
        v = sym.str("value%d" % i, 4, minlen=1, alphabet="hexlower")
        ti.checksums.add(spelled, t, v)
        want[norm] = (t, v)
    sym.check("table-keys", sorted(ti.checksums.checksums.keys()) == sorted(want))
    text = ti.dumps()
    sym.cover("written")
    back = TreeInfo()
    back.loads(text)
    sym.cover("reloaded")
    sym.check("read-back-keys", sorted(back.checksums.checksums.keys()) == sorted(want))
    for norm in sorted(want):
        if norm in back.checksums.checksums:
            g = back.checksums.checksums[norm]
            sym.check("own-checksum[%s]" % norm, sym.and_(g[0] == want[norm][0], g[1] == want[norm][1]))


def absolute_key_refused(sym, n_before, where):
    """absolute paths are refused however many entries the table holds already and wherever the absolute key sits: an absolute key put
    into the public table directly (after n entries recorded by add) is refused when the tree is written"""
    import C06
    ti, _ = C06.base_treeinfo(0)
    ti.checksums.checksums.clear()
    names = ["images/boot.iso", "images/efiboot.img", "LiveOS/squashfs.img", "images/pxeboot/vmlinuz", "images/pxeboot/initrd.img", "EFI/BOOT/BOOTX64.EFI",
             "isolinux/isolinux.bin", "images/install.img"]
    bad = ["/mnt/compose/images/boot.iso", "/zz", "/EFI/BOOT/grub.cfg"][(n_before + len(where)) % 3]          # concrete: it becomes an option name if it is let through
    value = sym.str("value", 4, minlen=1, alphabet="hexlower")
    if where == "first":
        ti.checksums.checksums[bad] = ["sha256", value]
    for i in range(n_before):
        ti.checksums.add(names[i], "sha256", "a%d" % i)
    if where == "last":
        ti.checksums.checksums[bad] = ["sha256", value]
    sym.cover("built")
    text = None
    try:
        text = ti.dumps()
        raised = False
    except ValueError:
        raised = True
    sym.check("absolute-key-refused", raised)


FILE_NAMES = ["images", "boot.iso", "LiveOS", "x"]


def add_computed(sym, kinds, alg):
    """Checksums.add without a value: the digest recorded under the normalised path is the digest of the file at that
    (lexically normalised) path below root_dir - 'x/../' components are resolved textually, x need not exist"""
    comps = [FILE_NAMES[i % len(FILE_NAMES)] if kind == "name" else kind for i, kind in enumerate(kinds)]
    want = normalise(comps)
    if not want or want[0] == ".." or comps[-1] in (".", "..", ""):
        return          # not a file below the root
    rel = "/".join(want)
    path, size = sym.symbolic_file(rel, MIB + 2)
    root = path[:-(len(rel) + 1)]
    ti = TreeInfo()
    ti.checksums.add("/".join(comps), alg, None, root)
    sym.cover("computed")
    with open(path, "rb") as f:
        data = f.read()
    digest = hashlib.new(alg, data).hexdigest()
    sym.check("one-entry-under-the-normalised-path", list(ti.checksums.checksums.keys()) == [rel])
    entry = ti.checksums.checksums.get(rel)
    sym.check("type", entry is not None and entry[0] == alg)
    sym.check("digest-of-the-file-at-that-path", entry is not None and entry[1] == digest)


def add_fails(sym, recorded_before, reason):
    """an add that cannot compute its digest (file missing, unknown algorithm, no root directory) raises and leaves the table as
    it was: nothing half-finished is recorded and an earlier true digest is kept"""
    path, size = sym.symbolic_file("images/boot.iso", MIB + 2)
    root = path[:-(len("images/boot.iso") + 1)]
    ti = TreeInfo()
    old = sym.str("old", 4, minlen=1, alphabet="hexlower")
    target = "images/boot.iso" if reason != "missing" else "images/efiboot.img"
    if recorded_before:
        ti.checksums.add(target, "sha256", old)
    before = dict((k, list(v)) for k, v in ti.checksums.checksums.items())
    try:
        if reason == "missing":
            ti.checksums.add(target, "sha256", None, root)
        elif reason == "algorithm":
            ti.checksums.add(target, "no-such-hash", None, root)
        else:
            ti.checksums.add(target, "sha256", None, None)
        raised = False
    except Exception:
        raised = True
    sym.cover("called")
    sym.check("the-add-fails", raised)
    after = dict((k, list(v)) for k, v in ti.checksums.checksums.items())
    sym.check("table-as-before", after == before)


CURRENT_OPTIONS = ["images/boot.iso", "images/efiboot.img", "LiveOS/squashfs.img"]


# relative keys of a pre-productmd (header-less, version 0.0) tree: keys that hold an '/os/' component next to the plain tail path
LEGACY_OPTIONS = ["images/boot.iso", "x86_64/os/images/boot.iso", "a/os/b/os/images/boot.iso"]


def read_section(sym, kinds, n_bare, legacy=False, n_typed=6):
    """[checksums]: every path gets exactly its own (type, value); bare digests are typed by length or rejected.
    legacy: the section belongs to a version 0.0 tree (only absolute keys are rewritten there; relative ones are kept as they are)"""
    OPTIONS = LEGACY_OPTIONS if legacy else CURRENT_OPTIONS
    p = SortedConfigParser()
    p.add_section("checksums")
    want = {}
    ok_all = True
    for i, kind in enumerate(kinds):
        if kind == "typed":
            t = sym.str("type%d" % i, 6, minlen=1, alphabet="alnum")
            v = sym.str("value%d" % i, n_typed, minlen=1, alphabet="hexlower")          # n_typed: 'type:value' texts as long as the bare digests (32 / 40 / 64)
            p.set("checksums", OPTIONS[i], t + ":" + v)
            want[OPTIONS[i]] = (False, t, v)
        else:
            v = sym.str("bare%d" % i, n_bare, alphabet="hexlower")
            p.set("checksums", OPTIONS[i], v)
            want[OPTIONS[i]] = (True, None, v)
    ti = TreeInfo()
    if legacy:
        ti.header.version = "0.0"
    try:
        ti.checksums.deserialize(p)
        raised = None
    except Exception as e:
        raised = e
    sym.cover("read")
    recognised = []
    for i, kind in enumerate(kinds):
        if kind == "bare":
            v = want[OPTIONS[i]][2]
            recognised.append(sym.or_(len(v) == 32, len(v) == 40, len(v) == 64))
    sym.check("unrecognised-bare-digest-rejected", sym.implies(sym.not_(sym.and_(*recognised)), raised is not None))
    if raised is not None:
        sym.check("rejected-with-ValueError", isinstance(raised, ValueError))
        return
    sym.cover("accepted")
    got = ti.checksums.checksums
    sym.check("paths", sorted(got.keys()) == sorted(want.keys()))
    for name, (is_bare, t, v) in want.items():
        g = got[name]
        if is_bare:
            by_len = sym.ite(len(v) == 32, g[0] == "md5", sym.ite(len(v) == 40, g[0] == "sha1", g[0] == "sha256"))
            sym.check("own-value[%s]" % name, g[1] == v)
            sym.check("typed-by-length[%s]" % name, by_len)
        else:
            sym.check("own-type[%s]" % name, g[0] == t)
            sym.check("own-value[%s]" % name, g[1] == v)


def image_add_checksum(sym, existing):
    """an image's recorded checksum is never silently replaced by a different value"""
    im = Images()
    img = Image(im)
    old = sym.str("old", 3)
    if existing:
        img.checksums["sha256"] = old
    new = sym.str("new", 3)
    before = dict(img.checksums)
    try:
        ret = img.add_checksum(None, "sha256", new)
        raised = False
    except ValueError:
        raised = True
        ret = None
    sym.cover("called")
    if existing:
        sym.check("recorded-value-kept", img.checksums["sha256"] == old)
        sym.check("conflict-raises", sym.iff(raised, sym.and_(len(new) > 0, new != old)))
        if not raised:
            sym.check("returns-recorded-value", ret == old)
    else:
        sym.check("no-refusal-for-a-new-type", sym.not_(raised))
        sym.check("recorded", img.checksums["sha256"] == new)
        sym.check("returns-value", ret == new)
    sym.check("other-types-untouched", sorted(img.checksums.keys()) == ["sha256"])


def jobs(tier, seed):
    big = tier == "thorough"
    out = []
    algs = ["sha256", "md5", "sha1", "sha512", "sha224", "sha384", "blake2b", "sha3_256"] if big else ["sha256", "md5", ["sha1", "sha512", "blake2b"][seed % 3]]
    for a in algs:
        out.append({"harness": "digest_of_file", "params": {"alg": a, "max_size": (5 if big else 3) * MIB + 2}})
    for a in algs[:2]:
        out.append({"harness": "digest_after_rewrite", "params": {"alg": a}})
    for rb in (False, True):
        for reason in ("missing", "algorithm", "no-root"):
            out.append({"harness": "add_fails", "params": {"recorded_before": rb, "reason": reason}})
    kinds = ["name", ".", "..", ""]
    import itertools
    combos = [c for n in (1, 2, 3, 4) for c in itertools.product(kinds, repeat=n) if ("name" in c or n <= 2) and c[0] != ""]
    for ci, c in enumerate(combos):
        if big or (ci * 5 + seed) % 7 == 0 or len(c) <= 2:
            out.append({"harness": "add_path", "params": {"kinds": list(c), "absolute": False}})
    for c in (["name"], ["name", "..", "name"], ["."]):
        out.append({"harness": "add_path", "params": {"kinds": c, "absolute": True}})
    for ci, c in enumerate(combos):
        depth, below = 0, True
        for kind in c:
            depth += 1 if kind == "name" else (-1 if kind == ".." else 0)
            below = below and depth >= 0
        if c[-1] == "name" and below and (big or len(c) <= 3 or (ci + seed) % 3 == 0):          # a file below the root (a path that leaves the root has no file to hash)
            out.append({"harness": "add_computed", "params": {"kinds": list(c), "alg": ["sha256", "md5", "sha1"][ci % 3]}})
    for n in (1, 2, 3):
        for c in itertools.product(["typed", "bare"], repeat=n):
            if big or n < 3 or (sum(1 for x in c if x == "bare") + seed) % 2 == 1:
                out.append({"harness": "read_section", "params": {"kinds": list(c), "n_bare": 66 if (big or n == 1) else 42}})
    for n_before in ((0, 1, 4, 5, 6, 8) if big else (0, 5, 8)):
        for where in ("last", "first"):
            out.append({"harness": "absolute_key_refused", "params": {"n_before": n_before, "where": where}})
    out.append({"harness": "read_section", "params": {"kinds": ["typed"], "n_bare": 66, "n_typed": 62}})
    out.append({"harness": "read_section", "params": {"kinds": ["typed", "bare"], "n_bare": 42, "n_typed": 38}})
    for picks in ([0, 1, 2], [3, 4, 5], [6, 0, 4], [1, 5, 6, 2]):
        out.append({"harness": "written_read_back", "params": {"picks": picks}})
    for c in (["typed", "typed", "typed"], ["bare", "typed", "bare"], ["typed", "bare"]):
        out.append({"harness": "read_section", "params": {"kinds": c, "n_bare": 42, "legacy": True}})
    for e in (False, True):
        out.append({"harness": "image_add_checksum", "params": {"existing": e}})
    return out


META = {
    "pinned_models": True,
    "expected_covers": {"add_fails": ["called"], "digest_after_rewrite": ["computed"], "digest_of_file": ["computed"], "add_computed": ["computed"], "add_path": ["called"], "read_section": ["read", "accepted"], "written_read_back": ["written", "reloaded"], "absolute_key_refused": ["built"], "image_add_checksum": ["called"]},
    "assumptions": [
        "compute_checksum: the file has a symbolic size up to 3 MiB + 2 (thorough 5 MiB + 2) and unmodelled content; hashlib is uninterpreted - what is decided is that the library "
        "feeds it exactly the bytes [0, size) in order, for every size (both sides of every 1 MiB chunk boundary) and for the listed algorithm names; "
        "contract: update(a); update(b) == update(a+b), read(k) returns min(k, rest) bytes",
        "digest_after_rewrite: the file is hashed, rewritten in place with other content of the same size (>= 1 byte) and an arbitrary modification time, and hashed again; "
        "contract: different content => different digest",
        "Checksums.add: paths of 1-4 components, each '.', '..', empty or a symbolic name over [A-Za-z0-9_-]; os.path.normpath modelled on such ropes (the C implementation cannot be interpreted); "
        "the expected key comes from an independent reference normalisation in the harness",
        "Checksums.add computing the digest itself (root_dir given): concrete component names, the same shapes of redundant components, the file of symbolic size "
        "<= 1 MiB + 2 lives at the lexically normalised path below the root and nowhere else (so 'x/../' where x does not exist must still resolve)",
        "[checksums] reader: 1-3 entries under concrete option names; 'type:value' with alphanumeric type / hex value, or a bare hex digest of symbolic length 0..66 (quick: 0..42 for 2-3 entries); two jobs with 'type:value' texts of up to 69 / 45 characters (so that their total length reaches 32 / 40 / 64)",
        "absolute_key_refused: an absolute key placed in the public table before or after 0..8 entries recorded by add()",
        "written_read_back: 3-4 concrete paths (redundant components, names beginning with one or two dots) with symbolic type and value, added to a valid tree, written and read back",
        "[checksums] of a version 0.0 tree: relative keys with and without '/os/' components side by side - each keeps its own checksum (absolute legacy keys are exercised by the shipped fixtures, C05)",
    ],
}
