"""C02 - image manifests survive a write/read cycle unchanged."""
import json

from productmd.images import Images, Image, SUPPORTED_IMAGE_TYPES, SUPPORTED_IMAGE_FORMATS
from productmd.composeinfo import COMPOSE_TYPES

PROPERTY = "C02"

ATTRS = ["path", "mtime", "size", "volume_id", "type", "format", "arch", "disc_number", "disc_count", "checksums",
         "implant_md5", "bootable", "subvariant", "unified", "additional_variants"]

# cell layouts: list of (variant, arch, [indices into the image pool])
SHAPES = {
    "one-cell-2": [("Server", "x86_64", [0, 1])],
    "two-variants": [("Server", "x86_64", [0, 1]), ("Client", "x86_64", [2])],
    "two-arches": [("Server", "x86_64", [0]), ("Server", "aarch64", [1]), ("Everything", "s390x", [2])],
    "shared-object": [("Server", "x86_64", [0]), ("Server", "ppc64le", [0, 1]), ("Workstation", "x86_64", [0])],
    "one-cell-3": [("Server", "x86_64", [0, 1, 2])],
    "with-empty-cell": [("Server", "x86_64", [0, 1]), ("Client", "x86_64", []), ("Server", "s390x", [])],    # cells emptied again (zero images)
}


LONG = 70          # "long" text values: up to 70 characters over a two-letter alphabet (length-dependent behaviour, e.g. clipping)


def make_image(sym, im, i, opts):
    img = Image(im)
    long_attr = opts.get("long") if i == 0 else None

    def text(name, maxlen, **kw):
        if long_attr is not None and name.startswith(long_attr):
            return sym.str(name, LONG, minlen=kw.get("minlen", 0), alphabet=["a", "b"])
        return sym.str(name, maxlen, **kw)
    img.path = text("path%d" % i, 3, minlen=1)
    img.mtime = sym.int("mtime%d" % i)
    img.size = sym.int("size%d" % i, 1, None)          # size 0 is refused by the writer (documentation silent): outside the claim
    img.volume_id = text("volid%d" % i, 3, minlen=1) if opts["volume_id"][i] else None
    img.type = sym.one_of("type%d" % i, SUPPORTED_IMAGE_TYPES)
    img.format = sym.one_of("format%d" % i, SUPPORTED_IMAGE_FORMATS)
    img.arch = text("arch%d" % i, 3, minlen=1)
    img.disc_number = sym.int("discnum%d" % i)
    img.disc_count = sym.int("disccount%d" % i)
    img.checksums = {"sha256": text("sha256_%d" % i, 3)}
    if opts["two_checksums"][i]:
        img.checksums["md5"] = sym.str("md5_%d" % i, 3)
    img.implant_md5 = sym.str("implant%d" % i, 32, minlen=32, alphabet=["a-z", "0-9", "A-F"]) if opts["implant"][i] else None
    img.bootable = sym.bool("bootable%d" % i)
    img.subvariant = text("subvariant%d" % i, 3)
    if opts["unified"][i]:
        img.unified = True
        img.additional_variants = list(opts["additional"][i])
    return img


def same_image(sym, a, b):
    return sym.and_(*[sym.same(getattr(a, k), getattr(b, k)) for k in ATTRS])


def roundtrip(sym, shape, opts):
    cells = SHAPES[shape]
    im = Images()
    im.compose.id = "Fedora-20-20131212.0"
    im.compose.type = sym.one_of("c_type", COMPOSE_TYPES)
    im.compose.date = sym.str("c_date", 8, minlen=8, alphabet="digits")
    im.compose.respin = sym.int("c_respin")
    pool = {}
    try:
        for variant, arch, idxs in cells:
            if not idxs:
                im.images.setdefault(variant, {}).setdefault(arch, set())
            for i in idxs:
                if i not in pool:
                    pool[i] = make_image(sym, im, i, opts)
                im.add(variant, arch, pool[i])
        # distinct paths within a cell (the property's quantifier)
        for variant, arch, idxs in cells:
            for x in idxs:
                for y in idxs:
                    if x < y:
                        sym.assume(pool[x].path != pool[y].path)
        text = im.dumps()
    except (ValueError, TypeError):
        return
    sym.cover("written")
    back = Images()
    back.loads(text)
    sym.cover("reloaded")
    sym.check("compose.type", back.compose.type == im.compose.type)
    sym.check("compose.date", back.compose.date == im.compose.date)
    sym.check("compose.respin", back.compose.respin == im.compose.respin)
    sym.check("compose.id", back.compose.id == im.compose.id)
    cells = [c for c in cells if c[2]]          # a cell without images is not stored
    want_variants = sorted(set(v for v, a, i in cells))
    sym.check("variants", sorted(back.images.keys()) == want_variants)
    for variant in want_variants:
        sym.check("arches[%s]" % variant, sorted(back.images[variant].keys()) == sorted(a for v, a, i in cells if v == variant))
    for variant, arch, idxs in cells:
        got = list(back.images[variant][arch])
        tag = "cell[%s,%s]" % (variant, arch)
        sym.check(tag + ".count", len(got) == len(idxs))
        for i in idxs:
            sym.check("%s.image%d-read-back-unchanged" % (tag, i), sym.or_(*[same_image(sym, pool[i], g) for g in got]))
        for g in got:
            sym.check(tag + ".types", sym.and_(isinstance(g.mtime, int), isinstance(g.size, int), isinstance(g.bootable, bool),
                                               isinstance(g.disc_number, int), isinstance(g.disc_count, int)))
    # the written lists are sorted by path
    doc = json.loads(text)
    for variant, arch, idxs in cells:
        lst = doc["payload"]["images"][variant][arch]
        for k in range(len(lst) - 1):
            sym.check("sorted[%s,%s,%d]" % (variant, arch, k), lst[k]["path"] <= lst[k + 1]["path"])
    text2 = back.dumps()
    sym.cover("rewritten")
    sym.check("second-dump-identical", text2 == text)


def edited_roundtrip(sym, unified_before, unified_after, additional_before, additional_after):
    """an image that was read from a file is edited through its attributes and written again: what is read back is the edited
    image - nothing of the record it was loaded from survives the edit"""
    im = Images()
    im.compose.id = "Fedora-20-20131212.0"
    im.compose.type = "production"
    im.compose.date = "20131212"
    im.compose.respin = 0
    o = {"volume_id": [True], "two_checksums": [False], "implant": [True], "unified": [unified_before], "additional": [list(additional_before)]}
    img = make_image(sym, im, 0, o)
    try:
        im.add("Server", "x86_64", img)
        text = im.dumps()
    except (ValueError, TypeError):
        return
    loaded = Images()
    loaded.loads(text)
    sym.cover("written")
    got = list(loaded.images["Server"]["x86_64"])[0]
    # ---- the edit: every attribute gets a new value
    new = {"path": sym.str("new_path", 3, minlen=1), "mtime": sym.int("new_mtime"), "size": sym.int("new_size", 1, None),
           "volume_id": None, "type": sym.one_of("new_type", SUPPORTED_IMAGE_TYPES), "format": sym.one_of("new_format", SUPPORTED_IMAGE_FORMATS),
           "arch": sym.str("new_arch", 3, minlen=1), "disc_number": sym.int("new_discnum"), "disc_count": sym.int("new_disccount"),
           "checksums": {"md5": sym.str("new_md5", 3)}, "implant_md5": None, "bootable": sym.bool("new_bootable"),
           "subvariant": sym.str("new_subvariant", 3), "unified": unified_after, "additional_variants": list(additional_after)}
    for k in ATTRS:
        setattr(got, k, new[k])
    try:
        text2 = loaded.dumps()
    except (ValueError, TypeError):
        return
    sym.cover("reloaded")
    third = Images()
    third.loads(text2)
    sym.cover("rewritten")
    back = list(third.images["Server"]["x86_64"])
    sym.check("one-image", len(back) == 1)
    for k in ATTRS:
        sym.check("edited-%s-read-back" % k, sym.same(getattr(back[0], k), new[k]))
    sym.check("third-dump-identical", third.dumps() == text2)


def load_twice(sym, edit):
    """what is read from a text depends on the text alone: the same text is loaded again after the first loaded object was edited in
    place (its checksum dictionary and variant list are the caller's to change) - in the same process"""
    im = Images()
    im.compose.id = "Fedora-20-20131212.0"
    im.compose.type = "production"
    im.compose.date = "20131212"
    im.compose.respin = 0
    o = {"volume_id": [False], "two_checksums": [True], "implant": [False], "unified": [True], "additional": [["Workstation", "Client"]]}
    img = make_image(sym, im, 0, o)
    want = dict((k, getattr(img, k)) for k in ATTRS)
    want["checksums"] = dict(img.checksums)
    want["additional_variants"] = list(img.additional_variants)
    try:
        im.add("Server", "x86_64", img)
        text = im.dumps()
    except (ValueError, TypeError):
        return
    sym.cover("written")
    first = Images()
    first.loads(text)
    got = list(first.images["Server"]["x86_64"])[0]
    if edit == "in-place":
        got.checksums["sha1"] = sym.str("extra_sum", 3)
        got.additional_variants.append("Extra")
    elif edit == "api":
        got.add_checksum(None, "sha1", sym.str("extra_sum", 3, minlen=1))
        got.additional_variants.append("Extra")
    sym.cover("reloaded")
    second = Images()
    second.loads(text)
    sym.cover("rewritten")
    back = list(second.images["Server"]["x86_64"])
    sym.check("one-image", len(back) == 1)
    for k in ATTRS:
        sym.check("second-load-%s-as-in-the-text" % k, sym.same(getattr(back[0], k), want[k]))
    sym.check("second-load-writes-the-same-text", second.dumps() == text)


def _opts(k):
    """rotating choice of the optional parts of the three pool images"""
    bit = lambda n: [bool((k >> (n + j)) & 1) for j in range(3)]
    uni = bit(6)
    return {"volume_id": bit(0), "two_checksums": bit(2), "implant": bit(4), "unified": uni,
            "additional": [[["Client"], ["Client", "Workstation"], ["Workstation", "Client"]][(k + j) % 3] if uni[j] else [] for j in range(3)]}


def jobs(tier, seed):
    big = tier == "thorough"
    out = []
    ks = range(0, 64, 3) if big else [5, 22, 43]
    for si, shape in enumerate(SHAPES):
        for k in ks:
            out.append({"harness": "roundtrip", "params": {"shape": shape, "opts": _opts(k + si + seed)}, "validate_every": 30})
    for la in ("volid", "path", "subvariant", "arch", "sha256"):
        o = _opts(5)
        o["volume_id"] = [True, False, True]
        o["long"] = la
        out.append({"harness": "roundtrip", "params": {"shape": "one-cell-2", "opts": o}})
    for ub, ua, ab, aa in ((True, False, ["Client", "Server"], []), (False, True, [], ["Workstation"]), (True, True, ["Client"], ["Workstation", "Client"]),
                           (False, False, [], [])):
        out.append({"harness": "edited_roundtrip", "params": {"unified_before": ub, "unified_after": ua, "additional_before": ab, "additional_after": aa}})
    for edit in ("in-place", "api", "none"):
        out.append({"harness": "load_twice", "params": {"edit": edit}})
    return out


META = {
    "pinned_models": True,
    "expected_covers": {"roundtrip": ["written", "reloaded", "rewritten"], "edited_roundtrip": ["written", "reloaded", "rewritten"], "load_twice": ["written", "reloaded", "rewritten"]},
    "assumptions": [
        "JSON text layer replaced by the DocText stub (contract in psx/stubs.py)",
        "cell layouts from the catalogue in harness/C02.py (<= 3 variants/arches, <= 3 images per cell, one image object filed under several cells); "
        "variant and arch keys concrete, every image attribute symbolic (sizes and times unbounded integers)",
        "image size >= 1: size 0 is refused by the writer although no document says so (treated as outside the claim)",
        "checksum type names concrete (sha256, md5), their values symbolic",
        "text attributes up to 3 characters over all of Unicode; in five further jobs one of volume id / path / subvariant / arch / checksum value is up to 70 characters over a two-letter alphabet",
        "edited_roundtrip: one image is written, read back, every one of its 15 attributes replaced (unified switched on/off/kept, additional variants replaced), written and read again",
    ],
}
