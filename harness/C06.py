"""C06 - only objects meeting every documented field constraint can be written."""
from productmd.composeinfo import ComposeInfo, Variant
from productmd.images import Images, Image
from productmd.rpms import Rpms
from productmd.modules import Modules
from productmd.extra_files import ExtraFiles
from productmd.discinfo import DiscInfo
import productmd.treeinfo
from domains import OBJECT_KINDS as KINDS, make_value, in_domain

PROPERTY = "C06"


# ---------------------------------------------------------------------------------------------------
# valid base objects (every enumeration value is used somewhere across the variants of `k`)

def base_composeinfo(k=0):
    ci = ComposeInfo()
    ci.release.name = "Satellite"
    ci.release.short = "sat"
    ci.release.version = ["6.2", "Rawhide", "7"][k % 3]
    ci.release.type = ["ga", "updates", "updates-testing", "eus", "aus", "els", "tus", "e4s", "fast"][k % 9]
    ci.release.is_layered = True
    ci.release.internal = bool(k % 2)
    ci.base_product.name = "Red Hat Enterprise Linux"
    ci.base_product.short = "rhel"
    ci.base_product.version = "7"
    ci.base_product.type = ["ga", "eus"][k % 2]
    ci.compose.id = "sat-6.2-rhel-7-20160229.%s0" % ["", "n.", "t.", "ci.", "d."][k % 5]
    ci.compose.type = ["production", "nightly", "test", "ci", "development"][k % 5]
    ci.compose.date = "20160229"
    ci.compose.respin = k
    ci.compose.label = ["EA", "DevelPhaseExit", "InternalAlpha", "Alpha", "InternalSnapshot", "Beta", "Snapshot", "RC", "Update", "SecurityFix"][k % 10] + "-1.%d" % k
    ci.compose.final = bool(k % 2)
    spec = [("Server", "Server", None, ["x86_64", "s390x"], "variant"),
            ("HA", "Server-HA", "Server", ["x86_64"], "addon"),
            ("Deep", "Server-HA-Deep", "Server-HA", ["x86_64"], "variant"),
            ("optional", "Server-optional", "Server", ["x86_64", "s390x"], "optional"),
            ("SAT", "Server-SAT", "Server", ["x86_64"], "layered-product"),
            ("Client", "Client", None, ["x86_64"], "variant")]
    objs = {}
    for vid, uid, parent, arches, typ in spec:
        v = Variant(ci)
        v.id = vid
        v.uid = uid
        v.name = "Name " + uid
        v.type = typ
        v.arches = set(arches)
        if typ == "layered-product":
            v.release.name = "Satellite"
            v.release.short = "SAT"
            v.release.version = "6.0"
            v.release.type = "ga"
        v.paths.os_tree[arches[0]] = uid + "/" + arches[0] + "/os"
        objs[uid] = v
        if parent is None:
            ci.variants.add(v)
        else:
            objs[parent].add(v)
    return ci, objs


def base_images(k=0):
    im = Images()
    im.compose.id = "Fedora-20-20131212.0"
    im.compose.type = "production"
    im.compose.date = "20131212"
    im.compose.respin = 0
    imgs = []
    types = [("dvd", "iso"), ("qcow2", "qcow2"), ("docker", "tar.xz")]
    for i, (variant, arch) in enumerate([("Server", "x86_64"), ("Server", "x86_64"), ("Client", "aarch64")]):
        img = Image(im)
        img.path = "%s/%s/iso/image%d" % (variant, arch, i)
        img.mtime = 1410855216 + i
        img.size = 4603248640 + i
        img.volume_id = [None, "Fedora-20"][i % 2]
        img.type, img.format = types[(i + k) % 3]
        img.arch = arch
        img.disc_number = 1
        img.disc_count = 1
        img.checksums = {"sha256": "a" * 64}
        img.implant_md5 = [None, "0123456789abcdef0123456789abcdef"][i % 2]
        img.bootable = bool(i % 2)
        img.subvariant = "sub%d" % i
        if i == 2:
            img.unified = True
            img.additional_variants = ["Server"]
        im.add(variant, arch, img)
        imgs.append(img)
    # a second object with the same identity and the same checksums as image 2 (the same unified DVD listed under
    # another variant, as a loaded manifest represents it), filed in a cell that is written earlier
    twin = Image(im)
    src = imgs[2]
    for a in ("mtime", "size", "volume_id", "type", "format", "arch", "disc_number", "disc_count", "implant_md5", "bootable", "subvariant", "unified"):
        setattr(twin, a, getattr(src, a))
    twin.path = "Server/aarch64/iso/twin"
    twin.checksums = dict(src.checksums)
    twin.additional_variants = list(src.additional_variants)
    im.add("Server", "aarch64", twin)
    imgs.append(twin)
    return im, imgs


def base_compose_only(cls):
    m = cls()
    m.compose.id = "Fedora-20-20131212.n.3"
    m.compose.type = "nightly"
    m.compose.date = "20131212"
    m.compose.respin = 3
    m.compose.label = "RC-1.0"
    m.compose.final = True
    return m


def base_discinfo():
    d = DiscInfo()
    d.timestamp = 1386856788.124593
    d.description = "Fedora 20"
    d.arch = "x86_64"
    d.disc_numbers = ["ALL"]
    return d


def base_treeinfo(k=0):
    T = productmd.treeinfo
    ti = T.TreeInfo()
    ti.release.name = "Fedora"
    ti.release.short = "F"
    ti.release.version = ["21", "Rawhide", "7.0"][k % 3]
    ti.release.is_layered = True
    ti.base_product.name = "Base"
    ti.base_product.short = "B"
    ti.base_product.version = "7"
    ti.tree.arch = ["x86_64", "src", "s390x"][k % 3]
    ti.tree.build_timestamp = [1417653453, 1417653453.5][k % 2]
    ti.tree.platforms = set([ti.tree.arch, "xen"])
    objs = {}
    for vid, uid, parent, typ in [("Server", "Server", None, "variant"), ("HA", "Server-HA", "Server", "addon"),
                                  ("optional", "Server-optional", "Server", "optional"), ("Client", "Client", None, "variant")]:
        v = T.Variant(ti)
        v.id = vid
        v.uid = uid
        v.name = "Name " + uid
        v.type = typ
        v.paths.packages = uid + "/Packages"
        v.paths.repository = uid
        objs[uid] = v
        if parent is None:
            ti.variants.add(v)
        else:
            objs[parent].add(v)
    ti.images.images[ti.tree.arch] = {"boot.iso": "images/boot.iso", "kernel": "images/pxeboot/vmlinuz"}
    ti.images.images["xen"] = {"kernel": "images/pxeboot/vmlinuz-xen"}
    ti.stage2.mainimage = "LiveOS/squashfs.img"
    ti.media.discnum = 1
    ti.media.totaldiscs = 2
    ti.checksums.add("images/boot.iso", "sha256", "a" * 64)
    return ti, objs


COMPOSE_FIELDS = [("id", "compose-id", 12), ("type", "compose-type", 12), ("date", "date", 9), ("respin", "int", 0),
                  ("label", "label", 16), ("final", "bool", 0)]
RELEASE_FIELDS = [("name", "str", 3), ("short", "str", 3), ("version", "release-version", 6), ("type", "release-type", 16),
                  ("is_layered", "bool", 0), ("internal", "bool", 0)]
BP_FIELDS = [("name", "str", 3), ("short", "str", 3), ("version", "release-version", 6), ("type", "release-type", 16)]
VARIANT_FIELDS = [("name", "str-nonblank", 3), ("type", "variant-type", 16)]
IMAGE_FIELDS = [("path", "str-nonblank", 3), ("mtime", "int", 0), ("size", "int-nonzero", 0), ("volume_id", "none-or-str-nonblank", 3),
                ("type", "image-type", 22), ("format", "image-format", 22), ("arch", "str-nonblank", 3), ("disc_number", "int", 0),
                ("disc_count", "int", 0), ("checksums", "checksums", 0), ("implant_md5", "implant-md5", 33), ("bootable", "bool", 0),
                ("subvariant", "str", 3), ("unified", "bool", 0), ("additional_variants", "list", 0)]
TREE_RELEASE_FIELDS = [("name", "str", 3), ("short", "str", 3), ("version", "tree-version", 5), ("is_layered", "bool", 0)]
TREE_BP_FIELDS = [("name", "str", 3), ("short", "str", 3), ("version", "tree-version", 5)]
TREE_FIELDS = [("arch", "str-nonblank", 3), ("build_timestamp", "number-nonzero", 0)]
TREE_VARIANT_FIELDS = [("type", "tree-variant-type", 10), ("name", "text-or-none", 3)]
# text fields without a validator of their own: the file writer is what refuses a non-text value
TREE_PATH_FIELDS = [("packages", "text-or-none", 3), ("repository", "text-or-none", 3), ("debug_packages", "text-or-none", 3), ("identity", "text-or-none", 3)]
TREE_MEDIA_FIELDS = [("discnum", "int-or-none", 0), ("totaldiscs", "int-or-none", 0)]
DISCINFO_FIELDS = [("timestamp", "float-nonzero", 0), ("description", "str-nonblank", 3), ("arch", "str-nonblank", 3),
                   ("disc_numbers", "nonblank-list", 0)]


def locate(fmt, position, k):
    """(top-level object, object holding the field)"""
    if fmt == "composeinfo":
        ci, objs = base_composeinfo(k)
        if position in ("compose", "release", "base_product"):
            return ci, getattr(ci, position)
        if position.startswith("v:"):
            return ci, objs[position[2:]]
        if position.startswith("r:"):
            return ci, objs[position[2:]].release
    if fmt == "images":
        im, imgs = base_images(k)
        if position == "compose":
            return im, im.compose
        return im, imgs[int(position[4:])]
    if fmt in ("rpms", "modules", "extra_files"):
        m = base_compose_only({"rpms": Rpms, "modules": Modules, "extra_files": ExtraFiles}[fmt])
        return m, m.compose
    if fmt == "discinfo":
        d = base_discinfo()
        return d, d
    if fmt == "treeinfo":
        ti, objs = base_treeinfo(k)
        if position in ("release", "base_product", "tree", "media", "stage2"):
            return ti, getattr(ti, position)
        if position.startswith("v:"):
            return ti, objs[position[2:]]
        if position.startswith("vp:"):
            return ti, objs[position[3:]].paths
        if position.startswith("images:"):
            return ti, ti.images.images[position[7:] if position[7:] != "ARCH" else ti.tree.arch]
    raise ValueError(fmt)


WARM = [[], ["images"], ["treeinfo"], ["composeinfo"], ["treeinfo", "composeinfo"], ["images", "treeinfo"], ["discinfo", "rpms", "images"]]


def warm_up(formats):
    """what the process did before: valid objects of other formats were validated and written.  Validation must not depend on it
    (productmd has same-named classes in different modules: Images, Variant, Release, BaseProduct, Compose, Header)"""
    for fmt in formats:
        if fmt == "composeinfo":
            base_composeinfo(1)[0].dumps()
        elif fmt == "images":
            base_images(1)[0].dumps()
        elif fmt == "treeinfo":
            base_treeinfo(1)[0].dumps()
        elif fmt == "discinfo":
            base_discinfo().dumps()
        else:
            base_compose_only({"rpms": Rpms, "modules": Modules, "extra_files": ExtraFiles}[fmt]).dumps()


def corrupt_field(sym, fmt, position, attr, rule, maxlen, k, warm=()):
    """one field, anywhere in the structure, takes any value outside its documented domain: nothing is written"""
    warm_up(warm)
    top, holder = locate(fmt, position, k)
    kind = sym.choice("kind", KINDS)
    v = make_value(sym, kind, "v", maxlen, rule)
    d = in_domain(sym, rule, kind, v)
    if d is None or d is True:
        return
    if attr == "final" and kind == "none":
        pass
    sym.assume(sym.not_(d))
    if attr.startswith("["):
        holder[attr[1:-1]] = v
    else:
        setattr(holder, attr, v)
    sym.cover("corrupted")
    text = None
    try:
        text = top.dumps()
        raised = False
    except (ValueError, TypeError):
        raised = True
    sym.check("invalid-object-refused-with-ValueError-or-TypeError", raised)
    sym.check("no-text-returned", text is None)


def special_corruption(sym, case, warm=()):
    """structural rules that are not about one scalar"""
    warm_up(warm)
    text = None
    if case == "child-arch-outside-parent":
        ci, objs = base_composeinfo(0)
        # the foreign arch is any known name the parent does not list - source arches included (sources are not implicitly everywhere)
        objs["Server-HA"].arches = set(["x86_64", sym.choice("foreign_arch", ["ppc64le", "src", "nosrc", "noarch", "i386"])])
        top = ci
    elif case == "grandchild-arch-outside-parent-inside-top":
        ci, objs = base_composeinfo(0)
        deep = Variant(ci)
        deep.id, deep.uid, deep.name, deep.type = "Deeper", "Server-HA-Deeper", "deeper", "variant"
        top_only = sorted(set(objs["Server"].arches) - set(objs["Server-HA"].arches))
        deep.arches = set(top_only[:1])          # an arch the top-level variant has and the direct parent has not
        deep.parent = objs["Server-HA"]
        objs["Server-HA"].variants["Deeper"] = deep
        if not top_only:
            return
        top = ci
    elif case == "child-arch-outside-parent-first-child":
        ci, objs = base_composeinfo(0)
        v = Variant(ci)
        v.id = "Extra"
        v.uid = "Client-Extra"
        v.name = "x"
        v.type = "addon"
        v.arches = set([sym.choice("foreign_arch", ["mips", "src", "noarch"])])
        try:
            objs["Client"].add(v)
        except ValueError:
            sym.cover("corrupted")
            sym.check("invalid-object-refused-with-ValueError-or-TypeError", True)
            return
        top = ci
    elif case == "misaligned-uid":
        ci, objs = base_composeinfo(0)
        u = sym.str("uid", 12)
        sym.assume(u != "Server-HA")
        objs["Server-HA"].uid = u
        top = ci
    elif case == "misaligned-top-uid":
        ci, objs = base_composeinfo(0)
        u = sym.str("uid", 8)
        sym.assume(u.replace("-", "") != "Client")
        objs["Client"].uid = u
        top = ci
    elif case == "empty-arches":
        ci, objs = base_composeinfo(0)
        objs["Server-optional"].arches = set()
        top = ci
    elif case == "bad-variant-id":
        ci, objs = base_composeinfo(0)
        i = sym.str("id", 6)
        sym.assume(sym.chars_in(i, "ascii"))
        sym.assume(sym.no_char(i, "\n"))
        sym.assume(sym.not_(sym.and_(len(i) >= 1, sym.chars_in(i, "alnum"))))
        objs["Client"].id = i
        top = ci
    elif case in ("bad-variant-id-aligned", "bad-child-id-aligned"):
        # the id breaks its rule (letters and ASCII digits only) while UID and dictionary key stay aligned with it
        ci, objs = base_composeinfo(0)
        # (a pool rather than a free string: the id becomes a JSON object key if the writer lets it through)
        i = sym.choice("id", ["Server\u0663", "HA\uff17", "\u0968", "R\u00e9sum\u00e9", "a b", "x_y", "a.b", "\u00b2", "1\u00bd", " ", "Client "])
        v = Variant(ci)
        v.id = i
        v.name = "x"
        v.type = "variant"
        v.arches = set(["x86_64"])
        if case == "bad-variant-id-aligned":
            v.uid = i
            ci.variants.variants[i] = v
        else:
            v.uid = "Server-" + i
            v.parent = objs["Server"]
            objs["Server"].variants[i] = v
        top = ci
    elif case == "additional-variants-on-non-unified":
        im, imgs = base_images(0)
        imgs[0].additional_variants = ["Client"]
        top = im
    elif case == "empty-checksums":
        im, imgs = base_images(0)
        imgs[1].checksums = {}
        top = im
    elif case == "tree-absolute-checksum-path":
        ti, objs = base_treeinfo(0)
        p = sym.str("path", 4, minlen=1, alphabet="printable")
        sym.assume(p.startswith("/"))
        sym.assume(sym.no_char(p, " =:"))
        ti.checksums.checksums[p] = ["sha256", "b" * 64]
        top = ti
    elif case == "tree-unreferenced-platform":
        ti, objs = base_treeinfo(0)
        ti.images.images["ppc64le"] = {"kernel": "images/vmlinuz"}
        top = ti
    elif case == "tree-unreferenced-platform-empty":
        ti, objs = base_treeinfo(0)
        ti.images.images["ppc64le"] = {}          # declared, no images yet - and not listed in [tree] platforms
        top = ti
    elif case == "tree-unreferenced-own-arch":
        ti, objs = base_treeinfo(0)
        ti.tree.platforms = set(["xen"])          # the tree's own arch has images but is not listed
        top = ti
    elif case == "tree-absolute-image-path":
        ti, objs = base_treeinfo(0)
        p = sym.str("path", 4, minlen=1, alphabet="printable")
        sym.assume(p.startswith("/"))
        sym.assume(sym.not_(p.endswith(" ")))
        ti.images.images["xen"]["kernel"] = p
        top = ti
    elif case == "tree-absolute-stage2":
        ti, objs = base_treeinfo(0)
        p = sym.str("path", 4, minlen=1, alphabet="printable")
        sym.assume(p.startswith("/"))
        sym.assume(sym.not_(p.endswith(" ")))
        ti.stage2.mainimage = p
        top = ti
    elif case == "tree-misaligned-child-uid":
        ti, objs = base_treeinfo(0)
        u = sym.str("uid", 10, alphabet="alnum")
        objs["Server-HA"].uid = u + "-HA"
        sym.assume(u != "Server")
        top = ti
    elif case == "tree-dashed-variant-id":
        ti, objs = base_treeinfo(0)
        i = sym.str("id", 5, alphabet="printable")
        sym.assume("-" in i)
        objs["Client"].id = i
        top = ti
    else:
        raise ValueError(case)
    sym.cover("corrupted")
    try:
        text = top.dumps()
        raised = False
    except (ValueError, TypeError):
        raised = True
    sym.check("invalid-object-refused-with-ValueError-or-TypeError", raised)
    sym.check("no-text-returned", text is None)


IN_PLACE_CASES = ["image-checksums-cleared", "image-additional-variants-appended", "variant-arches-cleared", "child-arch-added", "tree-platform-discarded",
                  "tree-image-path-replaced", "tree-checksum-key-added", "discinfo-numbers-cleared"]


def corrupt_in_place(sym, case, primed_by):
    """an object that has been validated before - it was written once, or it was read from a file - is corrupted by editing one of its
    containers in place (no attribute is assigned): the next write is refused like the first write of such an object would be"""
    text = None
    if case.startswith("image-"):
        top, imgs = base_images(0)
        cls = Images
    elif case.startswith("variant-") or case.startswith("child-"):
        top, objs = base_composeinfo(0)
        cls = ComposeInfo
    elif case.startswith("tree-"):
        top, objs = base_treeinfo(0)
        cls = productmd.treeinfo.TreeInfo
    else:
        top = base_discinfo()
        cls = DiscInfo
    first = top.dumps()
    if primed_by == "load":
        top = cls()
        top.loads(first)
        if case.startswith("image-"):
            imgs = sorted([i for v in top.images.values() for a in v.values() for i in a], key=lambda i: i.path)
        elif cls is ComposeInfo:
            objs = dict((u, top[u]) for u in ("Server", "Server-HA", "Server-optional", "Client"))
    sym.cover("primed")
    if case == "image-checksums-cleared":
        [i for i in imgs if not i.unified][1].checksums.clear()
    elif case == "image-additional-variants-appended":
        [i for i in imgs if not i.unified][0].additional_variants.append("Client")          # not a unified image
    elif case == "variant-arches-cleared":
        objs["Server-optional"].arches.clear()
    elif case == "child-arch-added":
        objs["Server-HA"].arches.add(sym.choice("foreign_arch", ["ppc64le", "src", "mips"]))
    elif case == "tree-platform-discarded":
        top.tree.platforms.discard("xen")          # [images-xen] stays
    elif case == "tree-image-path-replaced":
        p = sym.str("path", 4, minlen=1, alphabet="printable")
        sym.assume(p.startswith("/"))
        sym.assume(sym.not_(p.endswith(" ")))
        top.images.images["xen"]["kernel"] = p
    elif case == "tree-checksum-key-added":
        top.checksums.checksums["/images/boot.iso"] = ["sha256", "b" * 64]
    elif case == "discinfo-numbers-cleared":
        del top.disc_numbers[:]
    else:
        raise ValueError(case)
    sym.cover("corrupted")
    try:
        text = top.dumps()
        raised = False
    except (ValueError, TypeError):
        raised = True
    sym.check("invalid-object-refused-with-ValueError-or-TypeError", raised)
    sym.check("no-text-returned", text is None)


def valid_written(sym, fmt, k):
    """converse: every object whose fields all satisfy their documented rules is written"""
    fields = []
    if fmt == "composeinfo":
        top, objs = base_composeinfo(k)
        fields = [(top.compose, a, r, m) for a, r, m in COMPOSE_FIELDS] + [(top.release, a, r, m) for a, r, m in RELEASE_FIELDS if a != "is_layered"] + \
                 [(top.base_product, a, r, m) for a, r, m in BP_FIELDS] + [(objs["Server-HA"], a, r, m) for a, r, m in VARIANT_FIELDS] + \
                 [(objs["Server-SAT"].release, a, r, m) for a, r, m in RELEASE_FIELDS if a != "is_layered"]
    elif fmt == "images":
        top, imgs = base_images(k)
        fields = [(top.compose, a, r, m) for a, r, m in COMPOSE_FIELDS if a not in ("label", "final")] + \
                 [(imgs[k % 2], a, r, m) for a, r, m in IMAGE_FIELDS if a not in ("unified", "additional_variants", "checksums")]
    elif fmt == "discinfo":
        top = base_discinfo()
        fields = [(top, a, r, m) for a, r, m in DISCINFO_FIELDS if a in ("description", "arch")]
    elif fmt == "treeinfo":
        top, objs = base_treeinfo(k)
        fields = [(top.release, a, r, m) for a, r, m in TREE_RELEASE_FIELDS if a != "is_layered"] + [(top.base_product, a, r, m) for a, r, m in TREE_BP_FIELDS] + \
                 [(objs["Server-HA"], "name", "str", 3), (top.media, "discnum", "int-nonzero", 0), (top.media, "totaldiscs", "int-nonzero", 0)]
    else:
        top = base_compose_only({"rpms": Rpms, "modules": Modules, "extra_files": ExtraFiles}[fmt])
        fields = [(top.compose, a, r, m) for a, r, m in COMPOSE_FIELDS]
    n = 0
    for holder, attr, rule, maxlen in fields:
        kinds = {"str": "str", "str-nonblank": "str", "bool": "bool", "int": "int", "int-nonzero": "int"}
        kind = kinds.get(rule, "str")
        if rule in ("label", "none-or-str-nonblank", "implant-md5") and (n + k) % 2:
            kind = "none"
        v = make_value(sym, kind, "f%d_%s" % (n, attr), maxlen)
        d = in_domain(sym, rule, kind, v)
        sym.assume(d)
        if rule == "variant-type":
            sym.assume(v != "layered-product")        # a layered product needs its own release section: not a one-field change
        if rule == "image-type":
            continue            # type and format are free in this version; keep the base pair
        if rule == "image-format":
            continue
        setattr(holder, attr, v)
        n += 1
    sym.cover("built")
    try:
        text = top.dumps()
        refused = None
    except (ValueError, TypeError) as e:
        refused = e
    sym.check("valid-object-is-written", refused is None)


def jobs(tier, seed):
    big = tier == "thorough"
    out = []

    def add(fmt, position, fields, ks):
        for attr, rule, maxlen in fields:
            for k in ks:
                w = [x for x in WARM[(len(out) + seed) % len(WARM)] if x != fmt]
                out.append({"harness": "corrupt_field", "params": {"fmt": fmt, "position": position, "attr": attr, "rule": rule, "maxlen": maxlen, "k": k, "warm": w}})
    ks = (0, 3) if big else ((seed) % 10,)
    add("composeinfo", "compose", COMPOSE_FIELDS, ks)
    add("composeinfo", "release", RELEASE_FIELDS, ks)
    add("composeinfo", "base_product", BP_FIELDS, ks)
    for uid in ("Server", "Server-HA", "Server-optional", "Client", "Server-SAT"):
        add("composeinfo", "v:" + uid, VARIANT_FIELDS if uid != "Server-SAT" else VARIANT_FIELDS[:1], ks)
    add("composeinfo", "r:Server-SAT", [f for f in RELEASE_FIELDS if f[0] != "is_layered"], ks)
    add("images", "compose", [f for f in COMPOSE_FIELDS if f[0] not in ("final",)], ks)
    for i in (0, 1, 2, 3):
        add("images", "img:%d" % i, IMAGE_FIELDS, ks)
    for fmt in ("rpms", "modules", "extra_files"):
        add(fmt, "compose", COMPOSE_FIELDS, ks)
    add("discinfo", "top", DISCINFO_FIELDS, ks)
    add("treeinfo", "release", TREE_RELEASE_FIELDS, ks)
    add("treeinfo", "base_product", TREE_BP_FIELDS, ks)
    add("treeinfo", "tree", TREE_FIELDS, ks)
    add("treeinfo", "media", TREE_MEDIA_FIELDS, ks)
    for uid in ("Server", "Server-HA", "Client"):
        add("treeinfo", "v:" + uid, TREE_VARIANT_FIELDS, ks)
    for uid in ("Server", "Server-HA"):
        add("treeinfo", "vp:" + uid, TREE_PATH_FIELDS, ks)
    for case in ("child-arch-outside-parent", "grandchild-arch-outside-parent-inside-top", "child-arch-outside-parent-first-child", "misaligned-uid", "misaligned-top-uid", "empty-arches",
                 "bad-variant-id", "bad-variant-id-aligned", "bad-child-id-aligned", "additional-variants-on-non-unified", "empty-checksums", "tree-absolute-checksum-path", "tree-unreferenced-platform", "tree-unreferenced-platform-empty", "tree-unreferenced-own-arch",
                 "tree-absolute-image-path", "tree-absolute-stage2", "tree-misaligned-child-uid", "tree-dashed-variant-id"):
        for w in ([], ["images"], ["treeinfo"]) if (big or case.startswith("tree") or "arch" in case or "uid" in case) else ([],):
            out.append({"harness": "special_corruption", "params": {"case": case, "warm": w}})
    for case in IN_PLACE_CASES:
        for primed_by in ("dump", "load"):
            out.append({"harness": "corrupt_in_place", "params": {"case": case, "primed_by": primed_by}})
    for fmt in ("composeinfo", "images", "rpms", "modules", "extra_files", "discinfo", "treeinfo"):
        for k in (range(10) if big else range(seed % 3, 10, 3)):
            out.append({"harness": "valid_written", "params": {"fmt": fmt, "k": k}})
    return out


META = {
    "expected_covers": {"corrupt_field": ["corrupted"], "special_corruption": ["corrupted"], "corrupt_in_place": ["primed", "corrupted"], "valid_written": ["built"]},
    "assumptions": [
        "documented domains D_f written once in harness/domains.py, independent of the validators; corrupting values are symbolic values of every Python kind "
        "(None, bool, int, float from a pool, str, list, dict) constrained only by NOT D_f",
        "documentation-silent corners are on neither side: non-ASCII decimal digits and newlines in pattern-validated text, bool where an int is expected, size 0",
        "base objects are concrete valid objects (nested and layered-product variants, three images in two cells); one field is corrupted at a time (the property's quantifier)",
        "treeinfo: release, base product, tree, media and variant fields plus the structural rules (absolute image / stage2 / checksum path, unreferenced platform, "
        "misaligned child UID, dash in a variant id); text values printable ASCII",
        "corrupt_in_place: the object was written once, or read from its own text, before one of its containers (checksums, additional variants, arch set, "
        "platform set, image table, checksum table, disc numbers) is edited in place",
        "JSON text layer replaced by the DocText stub",
        "history: before the corruption, valid objects of other formats (a rotating selection) are validated and written in the same process; every path starts from freshly "
        "imported module state (psx.runner.module_state_guard)",
    ],
}
