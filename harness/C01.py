"""C01 - composeinfo survives a write/read cycle unchanged."""
import histories
from productmd.composeinfo import ComposeInfo, Variant, COMPOSE_TYPES, LABEL_NAMES, VARIANT_TYPES
from productmd.common import RELEASE_TYPES

PROPERTY = "C01"

PATH_FIELDS = ["os_tree", "packages", "repository", "isos", "images", "jigdos", "source_tree", "source_packages",
               "source_repository", "source_isos", "source_jigdos", "debug_tree", "debug_packages", "debug_repository"]

# forest shapes: (id, uid, parent uid or None, arches, layered-product?)
SHAPES = {
    "flat2": [("Server", "Server", None, ["x86_64", "s390x"], False),
              ("Client", "Client", None, ["x86_64"], False)],
    "nested": [("Server", "Server", None, ["x86_64", "ppc64le"], False),
               ("HA", "Server-HA", "Server", ["x86_64"], False),
               ("optional", "Server-optional", "Server", ["x86_64", "ppc64le"], False)],
    "deep": [("Server", "Server", None, ["x86_64", "aarch64", "s390x"], False),
             ("RT", "Server-RT", "Server", ["x86_64", "s390x"], False),
             ("Extra", "Server-RT-Extra", "Server-RT", ["x86_64"], False),
             ("Workstation", "Workstation", None, ["x86_64"], False)],
    "layered": [("Server", "Server", None, ["x86_64"], False),
                ("SAT", "Server-SAT", "Server", ["x86_64"], True),
                ("Gluster", "Gluster", None, ["x86_64", "aarch64"], True)],
    "dashed": [("Server", "Server", None, ["x86_64", "i386"], False),
               ("Serveroptional", "Server-optional", None, ["x86_64"], False),
               ("Addon", "Server-Addon", "Server", ["i386"], False)],
    "single": [("Everything", "Everything", None, ["x86_64"], False)],
    # the same id at several levels of one UID-prefix region (the classic Server / Server-optional / Server-HA / Server-HA-optional),
    # a chain whose ids repeat, and a dashed top-level variant next to a variant with an equally named child
    "reused-ids": [("Server", "Server", None, ["x86_64", "s390x"], False),
                   ("optional", "Server-optional", "Server", ["x86_64"], False),
                   ("HA", "Server-HA", "Server", ["x86_64", "s390x"], False),
                   ("optional", "Server-HA-optional", "Server-HA", ["s390x"], False)],
    "chain-x": [("X", "X", None, ["x86_64"], False),
                ("X", "X-X", "X", ["x86_64"], False),
                ("X", "X-X-X", "X-X", ["x86_64"], False),
                ("XX", "XX", None, ["x86_64"], False)],
}


def build(sym, shape, label_name, layered, paths_for, n, share=False):
    ci = ComposeInfo()
    ci.release.name = sym.str("r_name", n)
    ci.release.short = sym.str("r_short", n)
    ci.release.version = sym.str("r_version", n + 1)
    ci.release.type = sym.one_of("r_type", RELEASE_TYPES)
    ci.release.internal = sym.bool("r_internal")
    ci.release.is_layered = layered
    if layered:
        ci.base_product.name = sym.str("bp_name", n)
        ci.base_product.short = sym.str("bp_short", n)
        ci.base_product.version = sym.str("bp_version", n + 1)
        ci.base_product.type = sym.one_of("bp_type", RELEASE_TYPES)
    ci.compose.id = sym.str("c_id", 12)
    ci.compose.type = sym.one_of("c_type", COMPOSE_TYPES)
    ci.compose.date = sym.str("c_date", 8)
    ci.compose.respin = sym.int("c_respin")
    if label_name is not None:
        ci.compose.label = label_name + "-" + str(sym.int("l_major", 0, 99)) + "." + str(sym.int("l_minor", 0, 99))
    ci.compose.final = sym.bool("c_final")
    objs = {}
    for vid, uid, parent, arches, is_lp in SHAPES[shape]:
        v = Variant(ci)
        v.id = vid
        v.uid = uid
        v.name = sym.str("name_" + vid, n)
        if is_lp:
            v.type = "layered-product"
            v.release.name = sym.str("lp_name_" + vid, n)
            v.release.short = sym.str("lp_short_" + vid, n)
            v.release.version = sym.str("lp_version_" + vid, n + 1)
            v.release.type = sym.one_of("lp_type_" + vid, RELEASE_TYPES)
            v.release.internal = sym.bool("lp_internal_" + vid)
        else:
            v.type = sym.one_of("type_" + vid, ["variant", "optional", "addon"])
        v.arches = set(arches)
        for field, arch, may_be_empty in paths_for.get(vid, []):
            getattr(v.paths, field)[arch] = sym.str("p_%s_%s_%s" % (vid, field, arch), 3, minlen=0 if may_be_empty else 1)
        objs[uid] = v
        if parent is None:
            ci.variants.add(v)
        else:
            objs[parent].add(v)
    if share:
        # the caller uses one dict object for a path category of two variants whose arch sets differ (one common ISO directory):
        # each variant is written with the entries for its own arches, and nobody's entries get lost
        spec = SHAPES[shape]
        big_ = spec[0]
        for x in spec:
            if len(x[3]) > len(big_[3]):
                big_ = x
        small = [x for x in spec if set(x[3]) != set(big_[3])]
        if small:
            shared = dict((a, sym.str("shared_" + a, 3, minlen=1)) for a in big_[3])
            objs[big_[1]].paths.isos = shared
            objs[small[0][1]].paths.isos = shared
    return ci, objs


def release_facts(sym, tag, got, want, lowered_type):
    sym.check(tag + ".name", got.name == want.name)
    sym.check(tag + ".short", got.short == want.short)
    sym.check(tag + ".version", got.version == want.version)
    sym.check(tag + ".type", got.type == lowered_type)


def roundtrip(sym, shape, label_name, layered, paths_for, n, history=False, share=False):
    """history: another compose description was written and read by other objects first, and the text that is checked was already
    loaded once into an object that the caller then edited in place"""
    if history:
        histories.warm("composeinfo")
    try:
        ci, objs = build(sym, shape, label_name, layered, paths_for, n, share)
        # what the caller put in, copied before anything is written (the oracle must not share objects with the library)
        put_in = dict((uid, dict((field, dict(getattr(v.paths, field))) for field in PATH_FIELDS)) for uid, v in objs.items())
        text = ci.dumps()
    except (ValueError, TypeError):
        # the library does not agree to build / write this description (C06 decides whether that is right)
        return
    sym.cover("written")
    if history:
        first = ComposeInfo()
        first.loads(text)
        histories.scribble_composeinfo(first)
    back = ComposeInfo()
    back.loads(text)
    sym.cover("reloaded")
    # release / base product
    release_facts(sym, "release", back.release, ci.release, ci.release.type)
    sym.check("release.is_layered", back.release.is_layered == layered)
    sym.check("release.internal", back.release.internal == ci.release.internal)
    if layered:
        release_facts(sym, "base_product", back.base_product, ci.base_product, ci.base_product.type)
    # compose
    sym.check("compose.id", back.compose.id == ci.compose.id)
    sym.check("compose.type", back.compose.type == ci.compose.type)
    sym.check("compose.date", back.compose.date == ci.compose.date)
    sym.check("compose.respin", back.compose.respin == ci.compose.respin)
    if label_name is None:
        sym.check("compose.label", back.compose.label is None)
        sym.check("compose.final-default", back.compose.final == False)    # noqa: E712  ('final' is only stored next to a label)
    else:
        sym.check("compose.label", back.compose.label == ci.compose.label)
        sym.check("compose.final", back.compose.final == ci.compose.final)
    # forest
    spec = SHAPES[shape]
    top = sorted(uid for vid, uid, parent, arches, lp in spec if parent is None)
    sym.check("top-level", sorted(v.uid for v in back.variants.variants.values()) == top)
    for vid, uid, parent, arches, is_lp in spec:
        want = objs[uid]
        got = back[uid]
        tag = "variant[" + uid + "]"
        sym.check(tag + ".id", got.id == vid)
        sym.check(tag + ".uid", got.uid == uid)
        sym.check(tag + ".name", got.name == want.name)
        sym.check(tag + ".type", got.type == want.type)
        sym.check(tag + ".arches", got.arches == set(arches))
        kids = sorted(u for i, u, p, a, l in spec if p == uid)
        sym.check(tag + ".children", sorted(c.uid for c in got.variants.values()) == kids)
        sym.check(tag + ".child-keys", sorted(got.variants.keys()) == sorted(i for i, u, p, a, l in spec if p == uid))
        if parent is None:
            sym.check(tag + ".parent", got.parent is None)
        else:
            sym.check(tag + ".parent", got.parent is back[parent])
        if is_lp:
            release_facts(sym, tag + ".release", got.release, want.release, want.release.type)
            sym.check(tag + ".release.internal", got.release.internal == want.release.internal)
            sym.check(tag + ".release.is_layered", got.release.is_layered == True)    # noqa: E712
        # paths: every category, every arch of the variant; empty values and foreign arches are not stored
        for field in PATH_FIELDS:
            wantmap = put_in[uid][field]
            gotmap = getattr(got.paths, field)
            for arch in sorted(set(arches) | set(wantmap.keys())):
                w = wantmap.get(arch)
                if arch not in arches or w is None:
                    sym.check("%s.paths.%s[%s]-absent" % (tag, field, arch), arch not in gotmap)
                else:
                    g = gotmap.get(arch)
                    sym.check("%s.paths.%s[%s]" % (tag, field, arch),
                              sym.ite(len(w) == 0, sym.is_none(g), sym.same(g, w)))
    # byte-identical second write
    text2 = back.dumps()
    sym.cover("rewritten")
    sym.check("second-dump-identical", text2 == text)


def edited_roundtrip(sym, shape, label_name, layered, paths_for, n, empty_category=False):
    """a description that was read from a file is edited through its public attributes - a stored path removed (one entry, or the whole
    category emptied), another replaced, a new one added, scalar fields changed - and written again: the second file says what the
    edited object says, nothing of the first file's content survives on its own"""
    try:
        ci, objs = build(sym, shape, label_name, layered, paths_for, n)
        text = ci.dumps()
    except (ValueError, TypeError):
        return
    mid = ComposeInfo()
    mid.loads(text)
    sym.cover("loaded")
    spec = SHAPES[shape]
    expected = {}
    for vid, uid, parent, arches, is_lp in spec:
        v = mid[uid]
        expected[uid] = dict((field, dict(getattr(v.paths, field))) for field in PATH_FIELDS)
    edited = None
    for vid, uid, parent, arches, is_lp in spec:
        stored = [(f, a) for f in PATH_FIELDS for a in sorted(expected[uid][f])]
        if not stored:
            continue
        v = mid[uid]
        f0, a0 = stored[0]
        if empty_category:
            getattr(v.paths, f0).clear()
            expected[uid][f0] = {}
        else:
            del getattr(v.paths, f0)[a0]
            del expected[uid][f0][a0]
        if len(stored) > 1:
            f1, a1 = stored[-1]
            new = sym.str("edit_replace_" + vid, 3, minlen=1)
            getattr(v.paths, f1)[a1] = new
            expected[uid][f1][a1] = new
        f2 = [f for f in PATH_FIELDS if not expected[uid][f] and f != f0][0]
        added = sym.str("edit_add_" + vid, 3, minlen=1)
        getattr(v.paths, f2)[arches[0]] = added
        expected[uid][f2][arches[0]] = added
        v.name = sym.str("edit_name_" + vid, n, minlen=1)
        edited = uid
        break
    if edited is None:
        return
    new_respin = sym.int("edit_respin")
    mid.compose.respin = new_respin
    new_name = sym.str("edit_r_name", n, minlen=1)
    mid.release.name = new_name
    want_name = mid[edited].name
    try:
        text2 = mid.dumps()
    except (ValueError, TypeError):
        return
    sym.cover("rewritten")
    back = ComposeInfo()
    back.loads(text2)
    sym.check("edited.compose.respin", back.compose.respin == new_respin)
    sym.check("edited.release.name", back.release.name == new_name)
    sym.check("edited.variant.name", back[edited].name == want_name)
    for vid, uid, parent, arches, is_lp in spec:
        got = back[uid]
        for field in PATH_FIELDS:
            gotmap = getattr(got.paths, field)
            wantmap = expected[uid][field]
            sym.check("edited.variant[%s].paths.%s.arches" % (uid, field), sorted(gotmap.keys()) == sorted(wantmap.keys()))
            for arch in sorted(wantmap):
                if arch in gotmap:
                    sym.check("edited.variant[%s].paths.%s[%s]" % (uid, field, arch), sym.same(gotmap[arch], wantmap[arch]))
    sym.check("edited.second-dump-identical", back.dumps() == text2)


def _paths(shape, rot, focus=2):
    """a rotating subset of (category, arch, may be empty) entries per variant, including one foreign arch.
    Focus set: at most `focus` entries per job may be the empty string (each one doubles the number of paths)."""
    out = {}
    k = rot
    n = 0
    for vid, uid, parent, arches, lp in SHAPES[shape]:
        ent = []
        ent.append((PATH_FIELDS[k % 14], arches[0]))
        ent.append((PATH_FIELDS[(k + 5) % 14], arches[-1]))
        if vid == SHAPES[shape][0][0]:
            ent.append((PATH_FIELDS[(k + 9) % 14], "mips"))      # arch outside the variant's arch set
        out[vid] = ent
        n += len(ent)
        k += 3
    idx = 0
    for vid in out:
        new = []
        for f, a in out[vid]:
            new.append((f, a, (idx - rot) % n < focus and a != "mips"))
            idx += 1
        out[vid] = new
    return out


def jobs(tier, seed):
    big = tier == "thorough"
    out = []
    shapes = list(SHAPES)
    labels = [None] + LABEL_NAMES
    k = seed
    for si, shape in enumerate(shapes):
        if big:
            combos = [(lab, lay) for lab in labels for lay in (False, True)]
        else:
            combos = [(labels[(k + si) % len(labels)], False), (labels[(k + si + 4) % len(labels)], True), (None, si % 2 == 0)]
        for ci, (lab, lay) in enumerate(combos):
            out.append({"harness": "roundtrip", "params": {"shape": shape, "label_name": lab, "layered": lay,
                                                          "paths_for": _paths(shape, k + si + ci), "n": 4 if big else 3,
                                                          "history": (si + ci + seed) % 2 == 1, "share": (si + ci + seed) % 3 == 0},
                        "validate_every": 40})
    # a loaded description edited through its public attributes and written again
    for si, shape in enumerate(shapes):
        if big or (si + seed) % 2 == 0:
            out.append({"harness": "edited_roundtrip", "params": {"shape": shape, "label_name": labels[(k + si) % len(labels)], "layered": si % 3 == 0,
                                                                 "paths_for": _paths(shape, k + si + 1, focus=0), "n": 3, "empty_category": si % 4 == 0},
                        "validate_every": 40})
    return out


META = {
    "expected_covers": {"roundtrip": ["written", "reloaded", "rewritten"], "edited_roundtrip": ["loaded", "rewritten"]},
    "assumptions": [
        "JSON text layer replaced by the DocText stub (psx/stubs.py): ordered skeleton + normalised formatting arguments; "
        "contract: stdlib json round-trips str/int/bool/None/list/dict-with-str-keys exactly",
        "in every other job a history precedes the scenario (harness/histories.py): another document of the format is written and read by other objects, and the checked "
        "text is first loaded into an object that is then edited in place",
        "edited_roundtrip: a loaded description has one stored path removed (or its category emptied), one replaced, one added, a variant name, the release name and the "
        "respin changed, and is written and read again",
        "forest shapes from the catalogue in harness/C01.py (up to 4 variants, depth 3, dashed top-level UID, layered-product variants, ids re-used at several levels); "
        "ids, UIDs and arch names are concrete, all other fields symbolic",
        "per job a rotating subset of (path category, arch) entries is filled, always including one entry for an arch outside the variant's arch set; "
        "focus set: at most 2 of them may be the empty string in one job (rotating), the others are non-empty",
    ],
}
