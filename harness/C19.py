"""C19 - validation and parsing time grows polynomially with input length.

Every regular expression productmd compiles or matches is collected from the current source (module
level pattern objects, pattern lists, literal arguments of re.* calls and of _assert_matches_re) and
analysed for *exponential ambiguity* on the same backtracking-VM program the other checks use:

   exists state q, word w (|w| <= K): two distinct runs q -w-> q              (EDA witness)

asked of z3 for K = 1 .. K* = 2*|Qc|^2 over the pattern's minterm alphabet, restricted to the cyclic
core Qc (consuming states on a cycle).  unsat for every K up to K* means no exponential ambiguity,
hence backtracking is polynomially bounded (degree <= |Qc|).  A witness is replayed against the real
`re` engine by timing prefix + w^n + suffix; only measured exponential growth is reported.
"""
import ast
import glob
import json
import os
import re
import sys
import time

PROPERTY = "C19"
HERE = os.path.dirname(os.path.dirname(os.path.abspath(__file__)))
REPO = os.environ.get("PSX_REPO", "/repo")


# ---------------------------------------------------------------------------------------------------
# pattern collection (regenerated from the working tree on every run)

DYNAMIC = []      # pattern expressions that are assembled at run time (filled by collect_patterns)
HOLE = "(a+)+"     # what an attacker would put into a piece of text that ends up inside a pattern unescaped


def _template(node, mod):
    """a run-time assembled pattern with every unescaped hole replaced by HOLE and every escaped one by 'a';
    None when the expression is not a recognisable template"""
    def hole(e):
        if isinstance(e, ast.Call) and isinstance(e.func, ast.Attribute) and e.func.attr == "escape" and \
                isinstance(e.func.value, ast.Name) and e.func.value.id == "re":
            return "a"
        if isinstance(e, ast.Constant):
            return str(e.value)
        v = _const_fold(e, mod)
        if isinstance(v, (str, int)):
            return str(v)
        return HOLE
    if isinstance(node, ast.BinOp) and isinstance(node.op, ast.Mod) and isinstance(node.left, ast.Constant) and isinstance(node.left.value, str):
        args = node.right.elts if isinstance(node.right, ast.Tuple) else [node.right]
        try:
            return node.left.value % tuple(hole(a) for a in args)
        except Exception:
            return None
    if isinstance(node, ast.JoinedStr):
        out = ""
        for v in node.values:
            out += v.value if isinstance(v, ast.Constant) else hole(v.value)
        return out
    if isinstance(node, ast.Call) and isinstance(node.func, ast.Attribute) and node.func.attr == "format" and \
            isinstance(node.func.value, ast.Constant) and isinstance(node.func.value.value, str):
        try:
            return node.func.value.value.format(*[hole(a) for a in node.args], **dict((k.arg, hole(k.value)) for k in node.keywords))
        except Exception:
            return None
    if isinstance(node, ast.BinOp) and isinstance(node.op, ast.Add):
        a, b = _template(node.left, mod), _template(node.right, mod)
        if a is None and isinstance(node.left, ast.Constant):
            a = str(node.left.value)
        if b is None and isinstance(node.right, ast.Constant):
            b = str(node.right.value)
        return (a if a is not None else hole(node.left)) + (b if b is not None else hole(node.right))
    return None


RE_FUNCS = ("match", "compile", "split", "search", "fullmatch", "sub", "subn", "findall", "finditer")


def collect_patterns():
    """every pattern the library can hand to `re`: module-level pattern objects, constant arguments of re.* calls, and - by a
    small interprocedural data flow - whatever callers pass into functions that forward a parameter to re.* or to
    <param>.match (pattern sinks such as _assert_matches_re and helpers extracted from it)"""
    import importlib
    pats = {}      # pattern string -> list of origins
    del DYNAMIC[:]

    def add(p, origin, ref=None):
        if isinstance(p, re.Pattern):
            p = p.pattern
        if isinstance(p, str):
            pats.setdefault(p, []).append({"origin": origin, "ref": ref})
    mods = {}
    trees = {}
    for f in sorted(glob.glob(os.path.join(REPO, "productmd", "*.py"))):
        name = "productmd." + os.path.basename(f)[:-3] if not f.endswith("__init__.py") else "productmd"
        try:
            mods[f] = importlib.import_module(name)
        except Exception as e:
            raise RuntimeError("cannot import %s: %s" % (name, e))
        with open(f) as fh:
            trees[f] = ast.parse(fh.read(), f)
    # ---- module-level pattern objects
    for f, mod in mods.items():
        for k, v in vars(mod).items():
            if isinstance(v, re.Pattern) and getattr(mod, "__name__", "").startswith("productmd"):
                add(v, "%s.%s" % (mod.__name__, k), [mod.__name__, k])
            elif isinstance(v, (list, tuple)) and v and all(isinstance(x, re.Pattern) for x in v):
                for i, x in enumerate(v):
                    add(x, "%s.%s[%d]" % (mod.__name__, k, i), [mod.__name__, k, i])
    # ---- functions, and the function each node belongs to
    funcs = {}          # bare name -> [(file, FunctionDef)]
    owner = {}          # id(node) -> (file, FunctionDef) of the innermost enclosing def
    for f, tree in trees.items():
        def visit(node, cur):
            for ch in ast.iter_child_nodes(node):
                nxt = cur
                if isinstance(ch, (ast.FunctionDef, ast.AsyncFunctionDef)):
                    funcs.setdefault(ch.name, []).append((f, ch))
                    nxt = (f, ch)
                owner[id(ch)] = nxt
                visit(ch, nxt)
        visit(tree, None)

    def params(fd):
        a = fd.args
        return [x.arg for x in a.posonlyargs + a.args + a.kwonlyargs]

    def origin_of(fd, name):
        """('param', name) | ('iter', expression iterated) | None for a local name of function fd"""
        if name in params(fd):
            return ("param", name)
        for n in ast.walk(fd):
            if isinstance(n, (ast.For, ast.comprehension)) and isinstance(n.target, ast.Name) and n.target.id == name:
                return ("iter", n.iter)
        return None
    sinks = set()       # (function name, parameter name, 'pattern' | 'list')
    work = []

    def sink(fname, pname, kind):
        k = (fname, pname, kind)
        if k not in sinks:
            sinks.add(k)
            work.append(k)

    def dynamic(e, where, fd, mod):
        t = _template(e, mod)
        DYNAMIC.append({"where": where, "function": fd.name if fd is not None else None, "expression": ast.unparse(e)[:200], "instantiated": t})
        if t is not None:
            add(t, "run-time pattern at %s: %s" % (where, ast.unparse(e)[:120]))

    def pattern_expr(e, f, where):
        """an expression used as ONE pattern"""
        mod = mods[f]
        own = owner.get(id(e))
        fd = own[1] if own else None
        if isinstance(e, ast.Constant):
            if isinstance(e.value, str):
                add(e.value, where)
            return
        v = _const_fold(e, mod)
        if v is not None:
            add(v, where)
            return
        if fd is None:
            return          # module level: executed at import, the resulting objects are collected above
        if isinstance(e, ast.Name):
            o = origin_of(fd, e.id)
            if o and o[0] == "param":
                return sink(fd.name, o[1], "pattern")
            if o and o[0] == "iter":
                return list_expr(o[1], f, where)
        dynamic(e, where, fd, mod)

    def list_expr(e, f, where):
        """an expression used as a LIST of patterns"""
        mod = mods[f]
        own = owner.get(id(e))
        fd = own[1] if own else None
        if isinstance(e, (ast.List, ast.Tuple)):
            for x in e.elts:
                pattern_expr(x, f, where)
            return
        v = _const_fold(e, mod)
        if isinstance(v, (list, tuple)):
            for x in v:
                add(x, where)
            return
        if fd is None:
            return
        if isinstance(e, ast.Name):
            o = origin_of(fd, e.id)
            if o and o[0] == "param":
                return sink(fd.name, o[1], "list")
        dynamic(e, where, fd, mod)
    # ---- direct uses: re.f(PATTERN, ...) and NAME.match(...) on a parameter / loop variable
    for f, tree in trees.items():
        for n in ast.walk(tree):
            if not isinstance(n, ast.Call) or not isinstance(n.func, ast.Attribute):
                continue
            where = "%s:%d" % (os.path.relpath(f, REPO), n.lineno)
            fn = n.func
            if isinstance(fn.value, ast.Name) and fn.value.id == "re" and fn.attr in RE_FUNCS and n.args:
                pattern_expr(n.args[0], f, where)
            elif fn.attr in ("match", "search", "fullmatch", "findall", "finditer", "subn") and isinstance(fn.value, ast.Name) and owner.get(id(n)):
                # methods that only compiled patterns have (str has split/sub-like names, but none of these)
                fd = owner[id(n)][1]
                o = origin_of(fd, fn.value.id)
                if o and o[0] == "param":
                    sink(fd.name, o[1], "pattern")
                elif o and o[0] == "iter":
                    list_expr(o[1], f, where)
    # ---- callers of the sinks (to a fixed point)
    while work:
        fname, pname, kind = work.pop()
        for f2, fd in funcs.get(fname, []):
            ps = params(fd)
            if pname not in ps:
                continue
            for f, tree in trees.items():
                for n in ast.walk(tree):
                    if not isinstance(n, ast.Call):
                        continue
                    called = n.func.id if isinstance(n.func, ast.Name) else n.func.attr if isinstance(n.func, ast.Attribute) else None
                    if called != fname:
                        continue
                    where = "%s:%d" % (os.path.relpath(f, REPO), n.lineno)
                    pos = ps.index(pname) - (1 if isinstance(n.func, ast.Attribute) and ps and ps[0] in ("self", "cls") else 0)
                    arg = None
                    if 0 <= pos < len(n.args):
                        arg = n.args[pos]
                    for kw in n.keywords:
                        if kw.arg == pname:
                            arg = kw.value
                    if arg is None:
                        continue
                    (pattern_expr if kind == "pattern" else list_expr)(arg, f, where)
    return pats


def _const_fold(node, mod):
    """value of a Name / dotted attribute in the module's namespace (None if not resolvable)"""
    try:
        if isinstance(node, ast.Name):
            return getattr(mod, node.id, None)
        if isinstance(node, ast.Attribute):
            base = _const_fold(node.value, mod)
            return getattr(base, node.attr, None) if base is not None else None
    except Exception:
        return None
    return None


# ---------------------------------------------------------------------------------------------------
# exponential ambiguity as bounded SMT

def eps_paths(prog, start):
    """multiset of consuming instructions (and 'match') reachable from pc=start by epsilon moves, with path counts
    (anchors are treated as passable: an over-approximation, filtered by the timing replay)"""
    cnt = {}

    def go(pc, seen, mult):
        ins = prog[pc]
        op = ins[0]
        if op in ("char", "match"):
            cnt[pc] = cnt.get(pc, 0) + mult
            return
        if pc in seen:
            raise RuntimeError("epsilon cycle")
        seen = seen | {pc}
        if op in ("bol", "eol", "eos", "save"):
            go(pc + 1, seen, mult)
        elif op == "jmp":
            go(ins[1], seen, mult)
        elif op == "split":
            go(ins[1], seen, mult)
            go(ins[2], seen, mult)
    go(start, frozenset(), 1)
    return cnt


def analyse(pattern, cap):
    import z3
    from psx import rx
    t0 = time.time()
    P = rx.program(pattern)
    prog = P.prog
    Q = [pc for pc, ins in enumerate(prog) if ins[0] == "char"]
    E = {q: {t: n for t, n in eps_paths(prog, q + 1).items() if prog[t][0] == "char"} for q in Q}
    reach = {q: set(E[q]) for q in Q}
    changed = True
    while changed:
        changed = False
        for q in Q:
            new = set().union(*[reach[t] for t in reach[q]]) if reach[q] else set()
            if not new <= reach[q]:
                reach[q] |= new
                changed = True
    Qc = [q for q in Q if q in reach[q]]
    info = {"pattern": pattern, "states": len(Q), "cyclic_core": len(Qc), "queries": 0, "minterms": 0, "Kstar": 2 * len(Qc) ** 2}
    if not Qc:
        info.update(verdict="no cycle: linear", K_checked=0, time_s=round(time.time() - t0, 3))
        return None, info
    c = z3.Int("c")
    preds = [_z(prog[q][1](c, None)) for q in Qc]
    s = z3.Solver()
    s.add(c >= 0, c <= 0x10FFFF)
    reps = []
    while str(s.check()) == "sat":
        m = s.model()
        v = m.eval(c, model_completion=True).as_long()
        sig = tuple(z3.is_true(m.eval(p, model_completion=True)) for p in preds)
        reps.append((v, sig))
        s.add(z3.Or(*[(z3.Not(p) if b else p) for p, b in zip(preds, sig)]))
        if len(reps) > 512:
            raise RuntimeError("too many minterms")
    reps = [r for r in reps if any(r[1])]
    info["minterms"] = len(reps)
    Kstar = info["Kstar"]
    kmax = min(Kstar, cap)
    acc = {q: [i for i, (_, sig) in enumerate(reps) if sig[Qc.index(q)]] for q in Qc}
    for K in range(1, kmax + 1):
        s = z3.Solver()
        s.set("timeout", 120000)
        w = [z3.Int("w%d" % t) for t in range(K)]
        x = [z3.Int("x%d" % t) for t in range(K + 1)]
        y = [z3.Int("y%d" % t) for t in range(K + 1)]
        for t in range(K):
            s.add(w[t] >= 0, w[t] < len(reps))
        s.add(x[0] == y[0], x[K] == x[0], y[K] == y[0])

        def step(a, b, ch):
            return z3.Or(*[z3.And(a == q, b == q2, z3.Or(*[ch == i for i in acc[q]]))
                           for q in Qc for q2 in E[q] if q2 in Qc and acc[q]])

        def dbl(a, b):
            o = [z3.And(a == q, b == q2) for q in Qc for q2 in E[q] if q2 in Qc and E[q][q2] >= 2]
            return z3.Or(*o) if o else z3.BoolVal(False)
        for t in range(K):
            s.add(step(x[t], x[t + 1], w[t]), step(y[t], y[t + 1], w[t]))
        s.add(z3.Or(*([x[t] != y[t] for t in range(1, K)] + [dbl(x[t], x[t + 1]) for t in range(K)])))
        r = str(s.check())
        info["queries"] += 1
        if r == "sat":
            m = s.model()
            pump = "".join(chr(reps[m.eval(ch, model_completion=True).as_long()][0]) for ch in w)
            q0 = m.eval(x[0], model_completion=True).as_long()
            info.update(verdict="exponentially ambiguous", K_checked=K, pump=pump, state=q0, time_s=round(time.time() - t0, 3))
            return {"pump": pump, "prefix": _prefix_to(prog, Q, E, q0, reps, Qc)}, info
        if r != "unsat":
            info.update(verdict="inconclusive (solver %s at K=%d)" % (r, K), K_checked=K, time_s=round(time.time() - t0, 3))
            return "inconclusive", info
    complete = kmax >= Kstar
    info.update(verdict="no exponential ambiguity" + ("" if complete else " up to K=%d (K*=%d not reached)" % (kmax, Kstar)),
                K_checked=kmax, complete=complete, time_s=round(time.time() - t0, 3))
    return None, info


def _z(t):
    import z3
    return z3.BoolVal(t) if isinstance(t, bool) else t


def _rep_char(pred):
    import z3
    c = z3.Int("c")
    s = z3.Solver()
    s.add(c >= 33, c <= 126, _z(pred(c, None)))
    if str(s.check()) != "sat":
        s = z3.Solver()
        s.add(c >= 0, c <= 0x10FFFF, z3.Or(c < 0xD800, c > 0xDFFF), _z(pred(c, None)))
        if str(s.check()) != "sat":
            return None
    return chr(s.model().eval(c, model_completion=True).as_long())


def _prefix_to(prog, Q, E, target, reps, Qc):
    """a string that drives the VM from the start to consuming state `target` (breadth first)"""
    start = eps_paths(prog, 0)
    frontier = [(q, "") for q in start if prog[q][0] == "char"]
    seen = set(q for q, _ in frontier)
    while frontier:
        nxt = []
        for q, s in frontier:
            if q == target:
                return s
            ch = _rep_char(prog[q][1])
            if ch is None:
                continue
            for q2 in E[q]:
                if q2 not in seen:
                    seen.add(q2)
                    nxt.append((q2, s + ch))
        frontier = nxt
    return ""


# ---------------------------------------------------------------------------------------------------

# ---------------------------------------------------------------------------------------------------
# cost of the non-regex code: for EVERY string over the family's alphabet up to length n the parser / validator executes at
# most BUDGET(len) steps (a step = an executed statement, a call, or one comprehension iteration of productmd code; a
# regular-expression match is one step here - its own cost is what the ambiguity analysis above bounds).

def budget(k):
    """declared bound, linear in the input length (the maxima measured on the pinned tree, 9-84 steps, are below half of it)"""
    return 200 + 40 * k


def _targets():
    import productmd.common as C
    import productmd.composeinfo as CI
    import productmd.images as IM
    import productmd.treeinfo as TI
    from productmd.modules import Modules

    def field_validator(make, attr):
        """the object and the list of its validators for the field are prepared outside the measured region"""
        o = make()
        names = sorted(n for n in dir(type(o)) if n.startswith("_validate_" + attr))

        def run(s):
            setattr(o, attr, s)
            for name in names:
                getattr(o, name)()
        return run

    def compose():
        return CI.ComposeInfo().compose

    def release():
        return CI.ComposeInfo().release

    def variant():
        v = CI.Variant(CI.ComposeInfo())
        v.uid = "x"
        return v

    def image():
        return IM.Image(IM.Images())

    def header():
        return CI.ComposeInfo().header

    def tree_release():
        return TI.TreeInfo().release
    def tree_option(section, option, mirror=None):
        """loading a current .treeinfo in which one numeric option is the symbolic text (document prepared outside the measured region)"""
        import C07

        def run(s):
            p = C07.tree_parser(0)
            p.set(section, option, s)
            if mirror is not None and p.has_option(*mirror):
                p.set(mirror[0], mirror[1], s)
            text = C07.tree_text(p)
            return lambda: TI.TreeInfo().loads(text)
        run.two_stage = True
        return run

    def discinfo_line(which):
        from productmd.discinfo import DiscInfo

        def run(s):
            lines = ["1386856788.124593", "Fedora 20", "x86_64", "1,2"]
            lines[which] = s
            text = "\n".join(lines) + "\n"
            return lambda: DiscInfo().loads(text)
        run.two_stage = True
        return run
    return {
        # name: (callable of one string, alphabet of the adversarial family[, constant part of the budget])
        # numbers read from text: the magnitude the text denotes must not decide the running time (exponent notation)
        "treeinfo.build_timestamp": (tree_option("tree", "build_timestamp", ("general", "timestamp")), "19e.-", 16000),
        "treeinfo.media.discnum": (tree_option("media", "discnum"), "19e.-", 16000),
        "discinfo.timestamp": (discinfo_line(0), "19e.-", 1200),
        "discinfo.disc_numbers": (discinfo_line(3), "19e,A", 1200),
        "parse_release_id": (C.parse_release_id, "aF1-@."),
        "create_release_id": (lambda s: C.create_release_id(s, s, "ga", s, s, "ga"), "aF1-."),
        "is_valid_release_short": (C.is_valid_release_short, "aF1-"),
        "is_valid_release_version": (C.is_valid_release_version, "a1.-"),
        "is_valid_release_type": (C.is_valid_release_type, "ga-z"),
        "parse_nvra": (C.parse_nvra, "a1-:./"),
        "split_version": (C.split_version, "1a."),
        "get_major_version": (C.get_major_version, "1a."),
        "get_minor_version": (C.get_minor_version, "1a."),
        "modules.parse_uid": (Modules.parse_uid, "a1:/"),
        "get_date_type_respin": (CI.get_date_type_respin, "a1-.nt"),
        "verify_label": (CI.verify_label, "RCBeta-1."),
        "compose.id": (field_validator(compose, "id"), "a1-.nt"),
        "compose.date": (field_validator(compose, "date"), "12a"),
        "compose.label": (field_validator(compose, "label"), "RCBeta-1."),
        "release.short": (field_validator(release, "short"), "aF1-"),
        "release.version": (field_validator(release, "version"), "a1.-"),
        "release.type": (field_validator(release, "type"), "ga-z"),
        "variant.id": (field_validator(variant, "id"), "aZ1-"),
        "image.implant_md5": (field_validator(image, "implant_md5"), "af09Z"),
        "header.version": (field_validator(header, "version"), "12.a"),
        "treeinfo.release.version": (field_validator(tree_release, "version"), "12.a"),
    }


def cost_bound(sym, target, n):
    ent = _targets()[target]
    fn, alphabet = ent[0], ent[1]
    base = ent[2] if len(ent) > 2 else 0
    s = sym.str("s", n, alphabet=[(ord(c), ord(c)) for c in alphabet])
    if getattr(fn, "two_stage", False):
        fn = fn(s)          # builds the document around the text; the measured region is the load
        arg = ()
    else:
        arg = (s,)
    # numbers read from the text get opaque values; what their magnitude costs is charged in units of 50 us CPU (psx/numerics.py)
    sym.approximate_numerics()
    sym.step_limit(base + budget(n))          # nothing of length <= n may cost more than the bound for length n ...
    before = sym.steps()
    try:
        fn(*arg)
    except (ValueError, TypeError, OverflowError):
        pass
    cost = sym.steps() - before
    sym.step_limit(None)
    sym.cover("returned")
    total = cost + sym.charged()
    # a value-dependent charge far beyond the bound (more than twice the largest budget) is left to the smaller witnesses that exist
    # alongside it: replays and the native validation of path witnesses have to finish (the real conversion of such a value takes
    # minutes and gigabytes)
    sym.assume(total <= 2 * (base + budget(n)))
    # ... and each input stays below the bound for its own length
    sym.check("cost-within-the-declared-bound", sym.or_(*[sym.and_(len(s) == k, total <= base + budget(k)) for k in range(n + 1)]))
    sym.note_max("max-steps-seen", cost)


def structure_budget(n):
    """declared bound for loading a document with n variants (quadratic in n; the loaders are linear with a small quadratic part for
    the prefix scans of the legacy layout)"""
    return 4000 + 1200 * n + 120 * n * n


def cost_structure(sym, layout, shape, n):
    """documents that grow in structure rather than in the length of one string: loading a composeinfo with n variants - a chain
    nested n deep or n children of one parent, in the current and in the legacy (UID-prefix) layout - stays within the declared bound,
    whether the document is accepted or refused"""
    import json
    from productmd.composeinfo import ComposeInfo
    uids = []
    if shape == "chain":
        for i in range(n):
            uids.append("-".join("V%d" % j for j in range(i + 1)))
    else:
        uids = ["V0"] + ["V0-C%d" % i for i in range(n - 1)]
    variants = {}
    for u in uids:
        name = sym.str("name_" + u.replace("-", "_"), 2, minlen=1, alphabet=["a-z"])
        entry = {"id": u.split("-")[-1], "uid": u, "name": name, "type": "variant", "arches": ["x86_64"], "paths": {"os_tree": {"x86_64": u + "/os"}}}
        if layout == "current":
            kids = [k for k in uids if k.startswith(u + "-") and k.count("-") == u.count("-") + 1]
            if kids:
                entry["variants"] = [k.split("-")[-1] for k in kids]
        variants[u] = entry
    doc = {"header": {"version": "1.2" if layout == "current" else "0.3", "type": "productmd.composeinfo"},
           "payload": {"compose": {"id": "F-1-20200101.0", "type": "production", "date": "20200101", "respin": 0},
                       ("release" if layout == "current" else "product"): {"name": "F", "short": "F", "version": "1", "type": "ga"},
                       "variants": variants}}
    text = json.dumps(doc)
    ci = ComposeInfo()
    sym.step_limit(structure_budget(n))
    before = sym.steps()
    try:
        ci.loads(text)
    except ValueError:
        pass
    cost = sym.steps() - before
    sym.step_limit(None)
    sym.cover("returned")
    sym.check("cost-within-the-declared-bound", cost <= structure_budget(n))
    sym.note_max("max-steps-seen", cost)


def jobs(tier, seed):
    big = tier == "thorough"
    out = []
    for layout in ("current", "legacy"):
        for shape in ("chain", "wide"):
            for n in ((4, 8, 12, 16) if big else (4, 8, 12)):
                out.append({"harness": "cost_structure", "params": {"layout": layout, "shape": shape, "n": n}})
    for t in sorted(_targets()):
        for n in ((6, 12, 18) if big else (6, 12)):
            out.append({"harness": "cost_bound", "params": {"target": t, "n": n}, "validate_every": 50})
    return out


def value_dependent_numerics():
    """numeric operations whose running time depends on the VALUE a piece of run-time data denotes rather than on its length
    (arbitrary-precision decimal / rational parsing followed by conversion, powers and shifts with a run-time exponent):
    neither of the two cost models covers them, so their presence is reported instead of being passed over"""
    found = []
    for f in sorted(glob.glob(os.path.join(REPO, "productmd", "*.py"))):
        with open(f) as fh:
            tree = ast.parse(fh.read(), f)
        names = {}
        for n in ast.walk(tree):
            if isinstance(n, ast.ImportFrom) and n.module in ("decimal", "fractions"):
                for a in n.names:
                    names[a.asname or a.name] = "%s.%s" % (n.module, a.name)
        for n in ast.walk(tree):
            where = "%s:%d" % (os.path.relpath(f, REPO), getattr(n, "lineno", 0))
            if isinstance(n, ast.Call):
                fn = n.func
                q = None
                if isinstance(fn, ast.Name) and fn.id in names:
                    q = names[fn.id]
                elif isinstance(fn, ast.Attribute) and isinstance(fn.value, ast.Name) and fn.value.id in ("decimal", "fractions"):
                    q = "%s.%s" % (fn.value.id, fn.attr)
                if q in ("fractions.Fraction",) and n.args and not isinstance(n.args[0], ast.Constant):
                    found.append("%s: %s(%s)" % (where, q, ast.unparse(n.args[0])[:60]))
            elif isinstance(n, ast.BinOp) and isinstance(n.op, (ast.LShift,)) and not isinstance(n.right, ast.Constant):
                found.append("%s: %s" % (where, ast.unparse(n)[:80]))
    return found


def run(tier, seed):
    sys.path.insert(0, HERE)
    from psx import runner, rx
    t0 = time.time()
    known = runner.load_known(PROPERTY)
    pats = collect_patterns()
    cap = 400 if tier == "thorough" else 200
    infos = []
    violations = []
    known_hits = {}
    errors = []
    nq = 0
    vdn = value_dependent_numerics()
    for x in vdn:
        errors.append("numeric operation whose cost depends on the value of run-time data, covered by neither cost model: %s" % x)
    for d in DYNAMIC:
        if d["instantiated"] is None:
            errors.append("pattern assembled at run time at %s (%s) is not a recognisable template: not analysed" % (d["where"], d["expression"]))
    for pat in sorted(pats):
        try:
            wit, info = analyse(pat, cap)
        except rx.Unsupported as e:
            errors.append("pattern %r: %s" % (pat, e))
            continue
        except Exception as e:
            errors.append("pattern %r: analysis failed: %s: %s" % (pat, type(e).__name__, e))
            continue
        info["origins"] = [o["origin"] for o in pats[pat]][:6]
        infos.append(info)
        nq += info["queries"]
        if wit == "inconclusive":
            errors.append("pattern %r: %s" % (pat, info["verdict"]))
            continue
        if wit is None:
            if not info.get("complete", True):
                errors.append("pattern %r: completeness threshold K*=%d above the cap %d" % (pat, info["Kstar"], cap))
            continue
        # replay: measured growth on the real engine
        ref = next((o["ref"] for o in pats[pat] if o.get("ref")), None)
        rep = {"kind": "redos", "property": PROPERTY, "pattern": pat, "ref": ref, "prefix": wit["prefix"], "pump": wit["pump"],
               "sys_path": [REPO], "origins": info["origins"]}
        d = os.path.join(runner.REPLAY_DIR, PROPERTY)
        os.makedirs(d, exist_ok=True)
        path = os.path.join(d, "redos-%s.json" % runner._digest(pat))
        with open(path, "w") as f:
            json.dump(rep, f, indent=1, sort_keys=True)
        res = runner.replay_file(path)
        info["replay"] = {k: res.get(k) for k in ("reproduced", "n", "seconds", "subject_len", "error")}
        if not res.get("reproduced"):
            # ambiguity the real engine does not pay for (e.g. single-character repeat optimisations): not a violation
            info["verdict"] += "; not confirmed by timing on the real engine"
            continue
        hit = None
        for k in known:
            if k.get("pattern") == pat:
                hit = k
        if hit is not None:
            known_hits[hit["id"]] = {"replay": path, "what": hit.get("what", ""), "label": "redos"}
        else:
            violations.append({"label": "exponential-backtracking", "replay": path, "harness": "eda", "params": {"pattern": pat},
                               "inputs": {"prefix": wit["prefix"], "pump": wit["pump"], "n": res.get("n"), "seconds": res.get("seconds")}})
    extra = {
        "explanation": "every pattern the library hands to `re`, compiled to the backtracking-VM program and searched by z3 for an "
                       "exponential-ambiguity witness (two distinct runs q -w-> q) for every pump length up to the completeness "
                       "threshold K* = 2|Qc|^2; no witness => polynomially bounded backtracking",
        "evaluations": nq + len(infos),
        "distinct_nontrivial": len([i for i in infos if i["cyclic_core"] > 0]),
        "obligations": len(infos),
        "discharged": len([i for i in infos if i["verdict"].startswith(("no ", "no cycle"))]),
        "patterns": infos,
        "patterns_encoded": sorted(pats),
        "patterns_assembled_at_run_time": list(DYNAMIC),
        "value_dependent_numeric_operations": vdn,
        "known_findings_reproduced": known_hits,
        "samples": [{"pattern": i["pattern"], "verdict": i["verdict"], "K_checked": i["K_checked"], "queries": i["queries"],
                     "cyclic_core": i["cyclic_core"], "minterms": i["minterms"]} for i in infos[:6]],
    }
    meta = {
        "explanation": extra["explanation"],
        "assumptions": [
            "cost model: CPython's backtracking matcher explores at most the runs of the VM program; anchors are treated as passable (over-approximation)",
            "a witness is reported only if the real `re` engine shows measured exponential growth on prefix + pump^n + suffix",
            "value-dependent numeric cost: numbers read from symbolic text (float / Decimal of a string, exponent notation included) get opaque values, and what their "
            "magnitude costs - int(Decimal), b ** n, sequence * n - is charged as a lower bound in units of 50 us CPU (psx/numerics.py; calibrated on this machine) and added "
            "to the step count; targets: loading a .treeinfo / .discinfo whose numeric fields are the symbolic text. A witness is replayed by measured CPU time. "
            "Rational parsing and shifts with a run-time amount are not modelled: a source scan reports their presence as not analysed (exit 2) - the pinned tree contains none",
            "a pattern assembled inside a function from run-time text (%-format, f-string, str.format, +) is analysed with every hole that is not wrapped in re.escape replaced by "
            "the text '(a+)+' (document fields are untrusted input); a pattern expression that is not such a template is reported as not analysed (exit 2)",
            "non-regex parsing code (split/rsplit/count/endswith based) is linear by construction of those builtins and is not analysed here",
        ],
    }
    # ---- cost bounds of the non-regex code (ordinary psx jobs)
    st, st_errors = runner.engine_selftests({}, tier, seed)
    errors.extend(st_errors)
    only = os.environ.get("PSX_C19_JOBS")
    cost_jobs = jobs(tier, seed)
    if only:
        cost_jobs = [cost_jobs[int(i)] for i in only.split(",")]
    results, pool_extra = runner.run_pool(PROPERTY, "C19", tier, seed, cost_jobs)
    extra.update(pool_extra)
    extra["engine_selftests"] = st
    extra["pattern_analysis"] = {"queries": nq + len(infos), "patterns": len(infos)}
    extra["cost_bound"] = {"budget": "200 + 40*len steps", "targets": sorted(_targets()),
                           "max_steps_seen": dict(("%s/n=%d" % (r["params"].get("target") or "%s-%s" % (r["params"].get("layout"), r["params"].get("shape")), r["params"]["n"]),
                                                   r.get("notes", {}).get("max-steps-seen")) for r in results if "params" in r and "crash" not in r)}
    meta["expected_covers"] = {"cost_bound": ["returned"], "cost_structure": ["returned"]}
    meta["assumptions"] = meta["assumptions"][:3] + [
        "a pattern assembled inside a function from run-time text is analysed with every hole that is not wrapped in re.escape replaced by '(a+)+'; "
        "a pattern expression that is not such a template is reported as not analysed (exit 2)",
        "structural cost: loading a composeinfo with n = 4, 8, 12 (thorough 16) variants - a chain nested n deep or n children of one parent, current and legacy layout, "
        "names symbolic - executes at most 4000 + 1200 n + 120 n^2 steps, accepted or refused; larger documents are outside the claim",
        "cost bound of the non-regex code: for every string over the target's family alphabet up to length 6 / 12 (thorough: also 18) the parser or validator executes at most "
        "200 + 40*len steps (executed statements, calls and comprehension iterations of productmd code under the interpreter; a regex match counts as one step, its own "
        "cost being bounded by the ambiguity analysis); longer inputs and other alphabets are outside the claim; a counterexample is replayed natively with a line/call/C-call tracer",
    ]
    rc = runner.finish(PROPERTY, tier, seed, results, meta, time.time() - t0, extra_coverage=extra, extra_errors=errors, extra_violations=violations)
    for kid, kv in sorted(known_hits.items()):
        print("KNOWN-FINDING: property=%s %s [%s] replay=%s" % (PROPERTY, kv["what"], kid, kv["replay"]))
    for i in infos:
        print("  %-90s |Qc|=%d K*=%d -> %s (%d queries, %.1fs)" % (i["pattern"][:90], i["cyclic_core"], i["Kstar"], i["verdict"], i["queries"], i["time_s"]))
    return rc
