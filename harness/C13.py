"""C13 - RPM name-epoch:version-release.arch strings are parsed back to their parts."""
from productmd.common import parse_nvra, RPM_ARCHES
import productmd.rpms

PROPERTY = "C13"

NAMEC = ["a-z", "A-Z", "0-9", ".", "_", "+", "-"]
VERC = ["a-z", "A-Z", "0-9", ".", "_", "+", "~", "^"]


ANYDIR = [(32, 126)]          # any printable ASCII character, ':' '-' '.' and blanks included ("any directory prefix")


def nvra_roundtrip(sym, with_dir, with_epoch, with_rpm, n_name, n_ver, n_rel, n_dir, any_dir=False):
    """for every legal (name, epoch, version, release, arch) the parser returns exactly those parts"""
    name = sym.str("name", n_name, minlen=1, alphabet=NAMEC)
    # dash separated, non-empty segments
    sym.assume(sym.not_(name.startswith("-")))
    sym.assume(sym.not_(name.endswith("-")))
    sym.assume(sym.not_("--" in name))
    version = sym.str("version", n_ver, minlen=1, alphabet=VERC)
    release = sym.str("release", n_rel, minlen=1, alphabet=VERC)
    arch = sym.one_of("arch", RPM_ARCHES)
    text = name + "-"
    if with_epoch:
        epoch = sym.int("epoch", 0, 10 ** 9)
        text = text + str(epoch) + ":"
    else:
        epoch = 0
    text = text + version + "-" + release + "." + arch
    if with_dir:
        d = sym.str("dir", n_dir, alphabet=ANYDIR if any_dir else NAMEC + ["/"])
        text = d + "/" + text
    if with_rpm:
        text = text + ".rpm"
    sym.cover("built")
    res = parse_nvra(text)
    sym.cover("parsed")
    sym.check("name", res["name"] == name)
    sym.check("epoch", res["epoch"] == epoch)
    sym.check("epoch-is-int", isinstance(res["epoch"], int))
    sym.check("version", res["version"] == version)
    sym.check("release", res["release"] == release)
    sym.check("arch", res["arch"] == arch)
    sym.check("keys", sorted(res.keys()) == ["arch", "epoch", "name", "release", "version"])


def nvra_history(sym, second_rpm, edit):
    """what a call returns never depends on earlier calls or on what the caller did with earlier results: the same (or another)
    string is parsed after the caller has edited the dictionary it got the first time"""
    def parts(tag):
        name = sym.str("name" + tag, 2, minlen=1, alphabet=["a-z", "0-9"])
        version = sym.str("version" + tag, 2, minlen=1, alphabet=["0-9", "."])
        release = sym.str("release" + tag, 2, minlen=1, alphabet=["0-9", "a-z"])
        arch = sym.one_of("arch" + tag, ["x86_64", "noarch", "src"])
        return name, version, release, arch
    a = parts("A")
    b = parts("B")          # free: the solver may make it equal to a, or not
    text_a = a[0] + "-" + a[1] + "-" + a[2] + "." + a[3]
    text_b = b[0] + "-" + b[1] + "-" + b[2] + "." + b[3] + (".rpm" if second_rpm else "")
    first = parse_nvra(text_a)
    sym.cover("built")
    if edit:
        first["name"] = "edited"
        first["arch"] = "src"
        first["epoch"] = 7
    res = parse_nvra(text_b)
    sym.cover("parsed")
    sym.check("second-call-name", res["name"] == b[0])
    sym.check("second-call-epoch", res["epoch"] == 0)
    sym.check("second-call-version", res["version"] == b[1])
    sym.check("second-call-release", res["release"] == b[2])
    sym.check("second-call-arch", res["arch"] == b[3])
    if not edit:
        sym.check("first-result-untouched-by-the-second-call", sym.and_(first["name"] == a[0], first["version"] == a[1], first["release"] == a[2],
                                                                       first["arch"] == a[3], first["epoch"] == 0))


def big_epoch(sym, digits):
    """any non-negative integer is an epoch: also one far beyond 32 bits (e.g. a timestamp used as epoch)"""
    epoch = sym.int("epoch", 10 ** (digits - 1), 10 ** digits - 1)
    name = sym.str("name", 2, minlen=1, alphabet=["a-z"])
    version = sym.str("version", 2, minlen=1, alphabet=["0-9", "."])
    release = sym.str("release", 2, minlen=1, alphabet=["0-9", "a-z"])
    text = name + "-" + str(epoch) + ":" + version + "-" + release + ".x86_64"
    sym.cover("built")
    res = parse_nvra(text)
    sym.cover("parsed")
    sym.check("name", res["name"] == name)
    sym.check("epoch", res["epoch"] == epoch)
    sym.check("version", res["version"] == version)
    sym.check("release", res["release"] == release)
    sym.check("arch", res["arch"] == "x86_64")


def long_directory(sym, n_dir, with_rpm):
    """the directory in front of the file name may be long (deep trees): only the file name is parsed"""
    d = sym.str("dir", n_dir, minlen=1, alphabet=["d", "/"])
    name = sym.str("name", 1, minlen=1, alphabet=["a-z"])
    version = sym.str("version", 1, minlen=1, alphabet=["0-9"])
    release = sym.str("release", 1, minlen=1, alphabet=["0-9"])
    text = d + "/" + name + "-" + version + "-" + release + ".noarch" + (".rpm" if with_rpm else "")
    sym.cover("built")
    res = parse_nvra(text)
    sym.cover("parsed")
    sym.check("name", res["name"] == name)
    sym.check("epoch", res["epoch"] == 0)
    sym.check("version", res["version"] == version)
    sym.check("release", res["release"] == release)
    sym.check("arch", res["arch"] == "noarch")


def check_nevra_canonical(sym, with_dir, with_rpm, n_name, n_ver, n_rel, n_dir):
    """Rpms._check_nevra re-formats the parsed parts canonically: name-epoch:version-release.arch.
    With with_dir = with_rpm = False the input is itself canonical, i.e. this is the fixed point claim."""
    name = sym.str("name", n_name, minlen=1, alphabet=NAMEC)
    sym.assume(sym.not_(name.startswith("-")))
    sym.assume(sym.not_(name.endswith("-")))
    sym.assume(sym.not_("--" in name))
    version = sym.str("version", n_ver, minlen=1, alphabet=VERC)
    release = sym.str("release", n_rel, minlen=1, alphabet=VERC)
    arch = sym.one_of("arch", RPM_ARCHES)
    epoch = sym.int("epoch", 0, 10 ** 9)
    canonical = name + "-" + str(epoch) + ":" + version + "-" + release + "." + arch
    text = canonical
    if with_dir:
        d = sym.str("dir", n_dir, alphabet=NAMEC + ["/"])
        text = d + "/" + text
    if with_rpm:
        text = text + ".rpm"
    rpms = productmd.rpms.Rpms()
    sym.cover("built")
    out, parts = rpms._check_nevra(text)
    sym.cover("checked")
    sym.check("canonical-text", out == canonical)
    sym.check("parts", parts == {"name": name, "epoch": epoch, "version": version, "release": release, "arch": arch})


def jobs(tier, seed):
    out = []
    big = tier == "thorough"
    # small bounds first: the cheap queries decide most changes in seconds, the larger ones below widen the claim
    for with_dir, with_epoch, with_rpm in ((False, False, False), (False, True, True), (True, False, True), (True, True, False)):
        out.append({"harness": "nvra_roundtrip",
                    "params": {"with_dir": with_dir, "with_epoch": with_epoch, "with_rpm": with_rpm, "n_name": 3, "n_ver": 2, "n_rel": 2, "n_dir": 2}})
    # any directory prefix: every printable character (':' before an epoch-less name, dashes, dots, blanks)
    for with_epoch, with_rpm in ((False, True), (True, False)):
        out.append({"harness": "nvra_roundtrip", "solver_timeout_ms": 600000,
                    "params": {"with_dir": True, "with_epoch": with_epoch, "with_rpm": with_rpm, "n_name": 2, "n_ver": 2, "n_rel": 2, "n_dir": 6 if big else 4, "any_dir": True}})
    for wr in (False, True):
        out.append({"harness": "long_directory", "params": {"n_dir": 300 if big else 100, "with_rpm": wr}, "solver_timeout_ms": 600000})
    for digits in ((11, 14, 19, 25) if big else (11, 19)):
        out.append({"harness": "big_epoch", "params": {"digits": digits}})
    for second_rpm in (False, True):
        for edit in (True, False):
            out.append({"harness": "nvra_history", "params": {"second_rpm": second_rpm, "edit": edit}})
    for with_dir in (False, True):
        for with_epoch in (False, True):
            for with_rpm in (False, True):
                out.append({"harness": "nvra_roundtrip", "solver_timeout_ms": 600000,
                            "params": {"with_dir": with_dir, "with_epoch": with_epoch, "with_rpm": with_rpm,
                                       "n_name": 12 if big else 7, "n_ver": 8 if big else 4, "n_rel": 8 if big else 4,
                                       "n_dir": 8 if big else 3}})
                if with_epoch:
                    out.append({"harness": "check_nevra_canonical", "solver_timeout_ms": 600000,
                                "params": {"with_dir": with_dir, "with_rpm": with_rpm,
                                           "n_name": 10 if big else 6, "n_ver": 6 if big else 4, "n_rel": 6 if big else 4,
                                           "n_dir": 6 if big else 3}})
    return out


META = {
    "expected_covers": {"long_directory": ["built", "parsed"], "big_epoch": ["built", "parsed"], "nvra_history": ["built", "parsed"], "nvra_roundtrip": ["built", "parsed"], "check_nevra_canonical": ["built", "checked"]},
    "assumptions": [
        "names over [A-Za-z0-9._+-] made of non-empty dash-separated segments, versions and releases over [A-Za-z0-9._+~^] (non-empty, no dash), arch any entry of the real "
        "RPM_ARCHES table, epoch absent or 0..10^9, optional directory prefix over the name alphabet plus '/', optional '.rpm' suffix; "
        "two jobs with a directory of up to 4 (thorough 6) characters over all of printable ASCII (colons, blanks, ...)",
        "length bounds per job: quick name<=7, version/release<=4, directory<=3 (plus four jobs at 3/2/2/2); thorough 12/8/8/8; longer parts are outside the claim",
        "long_directory: a directory prefix of up to 100 (thorough 300) characters over {d, /} in front of a minimal file name",
        "big_epoch: epochs of exactly 11 and 19 (thorough also 14 and 25) decimal digits with parts of 1-2 characters",
        "call histories (nvra_history): two parses in one process, parts of 1-2 characters, the caller edits the first result in between",
        "Rpms._check_nevra: canonical re-formatting of the same parts (epoch always present)",
    ],
}
