import posixpath
"""engine self-test (not a property): split and normpath of texts that mix literal and symbolic parts, on symbolic inputs pinned to
concrete strings by an assumption - the solver must prove the modelled result equal to CPython's (run through the real runner)"""
PROPERTY = "selftest"

def t(sym, s, expr):
    x = sym.str("x", len(s) + 1)
    sym.assume(x == s)
    sym.cover("go")
    if expr == "split1":
        got = ("x/" + x).split("/"); want = ("x/" + s).split("/")
    elif expr == "split2":
        got = ("x/" + x + "/y").split("/"); want = ("x/" + s + "/y").split("/")
    elif expr == "norm1":
        got = posixpath.normpath("./" + x + "//."); want = posixpath.normpath("./" + s + "//.")
    elif expr == "norm2":
        got = posixpath.normpath("///" + x + "/../a"); want = posixpath.normpath("///" + s + "/../a")
    else:
        got = posixpath.normpath(x); want = posixpath.normpath(s)
    sym.check("same", got == want)

def jobs(tier, seed):
    out = []
    for s in ("a/b", "ab", "%/", "", "/", "//a/../..", "../a/./b//", "///x", "a/..", ".", "..", "/.."):
        for e in ("split1", "split2", "norm1", "norm2", "norm0"):
            out.append({"harness": "t", "params": {"s": s, "expr": e}})
    return out
META = {"expected_covers": {"t": ["go"]}}
