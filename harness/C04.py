"""C04 - treeinfo and discinfo survive a write/read cycle unchanged."""
import histories
from productmd.treeinfo import TreeInfo, Variant
from productmd.discinfo import DiscInfo

PROPERTY = "C04"

PATH_FIELDS = ["packages", "repository", "source_packages", "source_repository", "debug_packages", "debug_repository", "identity"]

# text fields range over printable ASCII; TEXT excludes '%' (see the focus parameter), and the file syntax's own
# restriction (no leading / trailing blank) is imposed by representable()
TEXT = [["!", "$"], ["&", "~"], " "]
TEXT_PCT = [["!", "~"], " "]


def _cls(spec):
    out = []
    for a in spec:
        if isinstance(a, list):
            out.append((ord(a[0]), ord(a[1])))
        else:
            out.append((ord(a), ord(a)))
    return out


def text(sym, name, n, focus, minlen=0):
    """a text field representable in the INI syntax: single line, no leading/trailing blank"""
    s = sym.str(name, n, minlen=minlen, alphabet=_cls(TEXT_PCT if name in focus else TEXT))
    sym.assume(sym.not_(s.startswith(" ")))
    sym.assume(sym.not_(s.endswith(" ")))
    return s


# variant forests: (id, uid, parent uid, type or None for symbolic child type)
SHAPES = {
    "single": [("Server", "Server", None, "variant")],
    "two-top": [("Server", "Server", None, "variant"), ("Client", "Client", None, "variant")],
    # a dashed top-level UID: the id itself has no dash, the variant is filed under its UID (Variants.add(v, variant_id=uid))
    "dashed": [("Server", "Server", None, "variant"), ("optional", "Server-optional", None, "optional")],
    # the alphabetically first top-level variant is not of type 'variant' (an optional tree next to its base variant's sibling)
    "optional-first": [("optional", "Client-optional", None, "optional"), ("Server", "Server", None, "variant")],
    "children": [("Server", "Server", None, "variant"), ("HA", "Server-HA", "Server", "addon"), ("LB", "Server-LB", "Server", "addon")],
    "child-types": [("Server", "Server", None, "variant"), ("X", "Server-X", "Server", None)],
    "nested": [("Server", "Server", None, "variant"), ("HA", "Server-HA", "Server", "addon"), ("Deep", "Server-HA-Deep", "Server-HA", "addon")],
    # one parent with children of every type side by side (addons are written as [addon-UID], the others as [variant-UID])
    "mixed": [("Server", "Server", None, "variant"), ("HA", "Server-HA", "Server", "addon"), ("optional", "Server-optional", "Server", "optional"),
              ("W", "Server-W", "Server", "variant")],
}


def build(sym, shape, opts, focus):
    ti = TreeInfo()
    ti.release.name = text(sym, "r_name", 3, focus)
    ti.release.short = text(sym, "r_short", 3, focus)
    ti.release.version = text(sym, "r_version", 5, focus)          # 5: three-component versions ("8.4.0") are inside the bound
    ti.release.is_layered = opts["layered"]
    if opts["layered"]:
        ti.base_product.name = text(sym, "bp_name", 3, focus)
        ti.base_product.short = text(sym, "bp_short", 3, focus)
        ti.base_product.version = text(sym, "bp_version", 4, focus)
    ti.tree.arch = opts["arch"]
    ti.tree.build_timestamp = sym.int("timestamp", -(2 ** 53), 2 ** 53)
    ti.tree.platforms = set(opts["platforms"])
    if opts["arch"] in opts["images"]:
        ti.tree.platforms.add(opts["arch"])        # a platform with images must be listed explicitly
    objs = {}
    owner = ti
    if opts.get("owner_arch"):
        # the Variant objects were created for another tree (a tool that builds its variants once and adds them to the tree of
        # every arch, the source tree included): what is written follows the tree that is written
        owner = TreeInfo()
        owner.tree.arch = opts["owner_arch"]
    for vid, uid, parent, typ in SHAPES[shape]:
        v = Variant(owner)
        v.id = vid
        v.uid = uid
        v.name = text(sym, "name_" + uid.replace("-", "_"), 3, focus)
        v.type = typ if typ is not None else sym.one_of("type_" + uid.replace("-", "_"), ["variant", "optional", "addon"])
        for i, field in enumerate(PATH_FIELDS):
            if field in opts["paths"].get(uid, []):
                setattr(v.paths, field, text(sym, "p_%s_%s" % (uid.replace("-", "_"), field), 3, focus))
        objs[uid] = v
        if parent is None:
            if vid != uid:
                ti.variants.add(v, variant_id=uid)
            else:
                ti.variants.add(v)
        else:
            objs[parent].add(v)
    for platform, names in opts["images"].items():
        ti.images.images[platform] = {}
        for name in names:
            p = text(sym, "img_%s_%s" % (platform, name.replace(".", "_").replace("-", "_")), 3, focus, minlen=1)
            ti.images.images[platform][name] = p
    if opts["stage2"]:
        ti.stage2.mainimage = text(sym, "mainimage", 3, focus, minlen=1)
        if opts["stage2"] > 1:
            ti.stage2.instimage = text(sym, "instimage", 3, focus, minlen=1)
    if opts["media"] is True:
        # disc numbering from 0 (a 0/0 numbering is what the library treats as "no [media] section": documentation-silent, on neither side)
        ti.media.discnum = sym.int("discnum", 0, 99)
        ti.media.totaldiscs = sym.int("totaldiscs", 0, 99)
        sym.assume(ti.media.discnum + ti.media.totaldiscs > 0)
    elif opts["media"] == "first":
        ti.media.discnum = sym.int("discnum", 1, 99)            # half a numbering: written as given or refused, never dropped
    elif opts["media"] == "second":
        ti.media.totaldiscs = sym.int("totaldiscs", 1, 99)
    for i, path in enumerate(opts["checksums"]):
        if opts.get("long_digest") and i == 0:
            # a digest of realistic length (up to 66 hex characters) under an arbitrary type name: the declared type is what counts
            value = sym.str("cs_value%d" % i, 66, minlen=1, alphabet=["a", "0"])
        else:
            value = sym.str("cs_value%d" % i, 3, minlen=1, alphabet="alnum")
        ti.checksums.add(path, sym.str("cs_type%d" % i, 3, minlen=1, alphabet="alnum"), value)
    return ti, objs


def roundtrip(sym, shape, opts, focus, history=False):
    if history:
        histories.warm("treeinfo")
    try:
        ti, objs = build(sym, shape, opts, focus)
        written = ti.dumps()
    except (ValueError, TypeError):
        sym.cover("refused")          # e.g. a half media numbering: the library does not agree to write it
        return
    sym.cover("written")
    if history:
        first = TreeInfo()
        first.loads(written)
        histories.scribble_treeinfo(first)
    back = TreeInfo()
    back.loads(written)
    sym.cover("reloaded")
    sym.check("release.name", back.release.name == ti.release.name)
    sym.check("release.short", back.release.short == ti.release.short)
    sym.check("release.version", back.release.version == ti.release.version)
    sym.check("release.is_layered", back.release.is_layered == opts["layered"])
    if opts["layered"]:
        sym.check("base_product.name", back.base_product.name == ti.base_product.name)
        sym.check("base_product.short", back.base_product.short == ti.base_product.short)
        sym.check("base_product.version", back.base_product.version == ti.base_product.version)
    sym.check("tree.arch", back.tree.arch == opts["arch"])
    sym.check("tree.build_timestamp", back.tree.build_timestamp == ti.tree.build_timestamp)
    sym.check("tree.platforms", back.tree.platforms == set(opts["platforms"]) | set([opts["arch"]]))
    spec = SHAPES[shape]
    sym.check("top-level", sorted(back.variants.variants.keys()) == sorted(u for i, u, p, t in spec if p is None))
    for vid, uid, parent, typ in spec:
        want = objs[uid]
        got = back.variants[uid]
        tag = "variant[" + uid + "]"
        sym.check(tag + ".id", got.id == vid)
        sym.check(tag + ".uid", got.uid == uid)
        sym.check(tag + ".name", got.name == want.name)
        sym.check(tag + ".type", got.type == want.type)
        sym.check(tag + ".children", sorted(c.uid for c in got.variants.values()) == sorted(u for i, u, p, t in spec if p == uid))
        if parent is None:
            sym.check(tag + ".parent", got.parent is None)
        else:
            sym.check(tag + ".parent", got.parent is back.variants[parent])
        for field in PATH_FIELDS:
            sym.check("%s.paths.%s" % (tag, field), sym.same(getattr(got.paths, field), getattr(want.paths, field)))
    sym.check("images.platforms", sorted(back.images.images.keys()) == sorted(opts["images"].keys()))
    for platform, names in opts["images"].items():
        sym.check("images[%s].names" % platform, sorted(back.images.images[platform].keys()) == sorted(names))
        for name in names:
            sym.check("images[%s][%s]" % (platform, name), back.images.images[platform][name] == ti.images.images[platform][name])
    sym.check("stage2.mainimage", sym.same(back.stage2.mainimage, ti.stage2.mainimage))
    sym.check("stage2.instimage", sym.same(back.stage2.instimage, ti.stage2.instimage))
    sym.check("media.discnum", sym.same(back.media.discnum, ti.media.discnum))
    sym.check("media.totaldiscs", sym.same(back.media.totaldiscs, ti.media.totaldiscs))
    sym.check("checksums.paths", sorted(back.checksums.checksums.keys()) == sorted(ti.checksums.checksums.keys()))
    for path in ti.checksums.checksums:
        w = ti.checksums.checksums[path]
        g = back.checksums.checksums[path]
        sym.check("checksums[%s]" % path, sym.and_(len(g) == 2, g[0] == w[0], g[1] == w[1]))
    again = back.dumps()
    sym.cover("rewritten")
    sym.check("second-dump-identical", again == written)


def edited_roundtrip(sym, shape, opts, focus):
    """a tree that was read from a file is edited through its public attributes - a path kind unset, another set, an image removed and
    one added, a checksum dropped, scalar fields changed - and written again: the second file says what the edited object says"""
    try:
        ti, objs = build(sym, shape, opts, focus)
        written = ti.dumps()
    except (ValueError, TypeError):
        return
    mid = TreeInfo()
    mid.loads(written)
    sym.cover("loaded")
    spec = SHAPES[shape]
    uid0 = spec[0][1]
    v = mid.variants[uid0] if spec[0][2] is None else None
    want_paths = dict((f, getattr(v.paths, f)) for f in PATH_FIELDS)
    set_fields = [f for f in PATH_FIELDS if want_paths[f] is not None]
    unset_fields = [f for f in PATH_FIELDS if want_paths[f] is None]
    if set_fields:
        setattr(v.paths, set_fields[0], None)
        want_paths[set_fields[0]] = None
    if unset_fields:
        newp = text(sym, "edit_path", 3, focus, minlen=1)
        setattr(v.paths, unset_fields[0], newp)
        want_paths[unset_fields[0]] = newp
    new_name = text(sym, "edit_name", 3, focus, minlen=1)
    v.name = new_name
    new_ts = sym.int("edit_timestamp", 1, 2 ** 53)
    mid.tree.build_timestamp = new_ts
    want_images = dict((p, dict(t)) for p, t in mid.images.images.items())
    for platform in sorted(want_images):
        if want_images[platform]:
            gone = sorted(want_images[platform])[0]
            del mid.images.images[platform][gone]
            del want_images[platform][gone]
            added = text(sym, "edit_img", 3, focus, minlen=1)
            mid.images.images[platform]["added.img"] = added
            want_images[platform]["added.img"] = added
            break
    want_sums = dict(mid.checksums.checksums)
    if want_sums:
        gone = sorted(want_sums)[0]
        del mid.checksums.checksums[gone]
        del want_sums[gone]
    try:
        again = mid.dumps()
    except (ValueError, TypeError):
        return
    sym.cover("rewritten")
    back = TreeInfo()
    back.loads(again)
    sym.check("edited.variant.name", back.variants[uid0].name == new_name)
    sym.check("edited.build_timestamp", back.tree.build_timestamp == new_ts)
    for f in PATH_FIELDS:
        sym.check("edited.paths." + f, sym.same(getattr(back.variants[uid0].paths, f), want_paths[f]))
    sym.check("edited.images.platforms", sorted(back.images.images.keys()) == sorted(p for p in want_images))
    for platform in sorted(want_images):
        if platform in back.images.images:
            sym.check("edited.images[%s].names" % platform, sorted(back.images.images[platform].keys()) == sorted(want_images[platform].keys()))
            for name in sorted(want_images[platform]):
                if name in back.images.images[platform]:
                    sym.check("edited.images[%s][%s]" % (platform, name), back.images.images[platform][name] == want_images[platform][name])
    sym.check("edited.checksums.paths", sorted(back.checksums.checksums.keys()) == sorted(want_sums.keys()))
    sym.check("edited.second-dump-identical", back.dumps() == again)


# float timestamps are not symbolic: a pool of representative values (long fractions, tiny and huge magnitudes, negative,
# shortest-repr corner cases).  Not a solver result; the solver part of this harness is the text fields and disc numbers.
FLOATS = [1386856788.124593, 0.5, -3.25, 1e+22, 1234567890.0, 12345.678901234, 0.30000000000000004, 1e-09, -4.9e-324,
          1.7976931348623157e+308, 1417653453.0000002, 5e-08, 123456789012345.67, -0.1]


def discinfo_roundtrip(sym, numbers, quoted_ok, fi=0):
    d = DiscInfo()
    d.timestamp = FLOATS[fi]
    d.description = sym.str("description", 5, minlen=1, alphabet=_cls([["!", "~"], " "]))
    sym.assume(sym.not_(d.description.startswith(" ")))
    sym.assume(sym.not_(d.description.endswith(" ")))
    # a description wrapped in quotes is not covered by the property
    sym.assume(sym.not_(sym.or_(d.description.startswith("\""), d.description.startswith("'"), d.description.endswith("\""), d.description.endswith("'"))))
    d.arch = sym.one_of("arch", ["x86_64", "s390x", "src"])
    if numbers == "ALL":
        d.disc_numbers = ["ALL"]
    else:
        d.disc_numbers = [sym.int("n%d" % i, 1, 99) for i in range(numbers)]
    text_ = d.dumps()
    sym.cover("written")
    back = DiscInfo()
    back.loads(text_)
    sym.cover("reloaded")
    sym.check("timestamp", back.timestamp == d.timestamp)
    sym.check("description", back.description == d.description)
    sym.check("arch", back.arch == d.arch)
    sym.check("disc_numbers", back.disc_numbers == d.disc_numbers)
    sym.check("second-dump-identical", back.dumps() == text_)


def _opts(shape, k):
    uids = [u for i, u, p, t in SHAPES[shape]]
    arch = ["x86_64", "src", "s390x", "aarch64"][k % 4]
    plats = [[], ["xen"], ["xen", "ppc64le"]][k % 3]
    paths = {}
    for j, u in enumerate(uids):
        paths[u] = [PATH_FIELDS[(k + j + i * 3) % 7] for i in range(1 + (k + j) % 3)]
    images = {}
    if k % 2 == 0:
        images[arch] = ["boot.iso", "Kernel"][: 1 + k % 4 // 2]
        if plats and k % 4 == 0:
            images[plats[0]] = ["kernel"]
        if len(plats) == 2:
            images[plats[1]] = []          # a declared platform whose image table is (still) empty

    return {"layered": k % 3 == 1, "arch": arch, "platforms": plats, "paths": paths, "images": images, "stage2": k % 3, "media": True if k % 2 == 1 else {2: "first", 10: "second"}.get(k, False),
            "checksums": [["images/boot.iso", "./.a//b/../.c", "./a//b/../c"][: 1 + k % 3], []][k % 4 // 2]}          # incl. components that begin with a dot


def _focus(shape, opts, k):
    """which two text fields may contain '%' in this job"""
    names = ["r_name", "r_short", "r_version"]
    for i, u, p, t in SHAPES[shape]:
        names.append("name_" + u.replace("-", "_"))
        for f in opts["paths"].get(u, []):
            names.append("p_%s_%s" % (u.replace("-", "_"), f))
    return [names[k % len(names)], names[(k * 3 + 1) % len(names)]]


def jobs(tier, seed):
    big = tier == "thorough"
    out = []
    for si, shape in enumerate(SHAPES):
        for k in (range(12) if big else [(seed + si) % 12, (seed + si + 5) % 12]):
            o = _opts(shape, k)
            out.append({"harness": "roundtrip", "params": {"shape": shape, "opts": o, "focus": _focus(shape, o, k + seed), "history": (len(out) + seed) % 2 == 1},
                        "validate_every": 40})
            if o["checksums"] and not any(j["params"].get("opts", {}).get("long_digest") for j in out):
                o2 = dict(o)
                o2["long_digest"] = True
                out.append({"harness": "roundtrip", "params": {"shape": shape, "opts": o2, "focus": _focus(shape, o2, k + seed)}, "validate_every": 40})
    for si, shape in enumerate(SHAPES):
        if big or (si + seed) % 2 == 0:
            k = (seed + si * 2) % 12
            o = _opts(shape, k if _opts(shape, k)["images"] else k + 1)
            out.append({"harness": "edited_roundtrip", "params": {"shape": shape, "opts": o, "focus": []}, "validate_every": 40})
    for fi in range(len(FLOATS)):
        out.append({"harness": "discinfo_roundtrip", "params": {"numbers": ["ALL", 1, 2, 3][fi % 4], "quoted_ok": False, "fi": fi}})
    return out


META = {
    "fp_lemma": True,
    "expected_covers": {"roundtrip": ["written", "reloaded", "rewritten"], "edited_roundtrip": ["loaded", "rewritten"], "discinfo_roundtrip": ["written", "reloaded"]},
    "assumptions": [
        "INI text layer: accessor methods of the real parser object are modelled on its own dictionaries (psx/stubs.py); written text is a DocText holding the ordered "
        "sections/options; it can be read back provided every value is representable (single line, no leading/trailing blank) - the property's own restriction",
        "text fields range over printable ASCII; per job two of them (rotating focus set) may contain '%', the others not; values with '%(' are outside the model",
        "build timestamp: integer with |t| <= 2**53 (the int -> text -> float -> int chain is exact there; lemma int_float_roundtrip checked by the C04 thorough run); float timestamps from a pool",
        "option names (image names, checksum paths), variant ids/UIDs, platforms are concrete pool values (incl. mixed case and non-normalised checksum paths); checksum type/value alphanumeric",
        "edited_roundtrip: a loaded tree has one path kind unset and one set, the variant name and the timestamp changed, an image replaced and a checksum dropped, "
        "and is written and read again",
        "variant forests from the catalogue in harness/C04.py (top-level variants incl. dashed UID, children, nested children, a child of symbolic type)",
    ],
}
