import sys, json
sys.path[:0] = ["/verif", "/verif/harness", "/repo"]
from psx.native import NativeSym
import importlib
mod = importlib.import_module(sys.argv[1])
job = mod.jobs("quick", 0)[int(sys.argv[2])]
inputs = json.loads(sys.argv[3]) if len(sys.argv) > 3 else {}
class S(NativeSym):
    def _get(self, name, default):
        return self.inputs.get(name, default)
    def str(self, name, maxlen, minlen=0, alphabet=None):
        return self.inputs.get(name, "a" * max(minlen, 1))
    def int(self, name, lo=None, hi=None):
        return self.inputs.get(name, max(lo or 1, 1))
    def one_of(self, name, options):
        return self.inputs.get(name, list(options)[0])
s = S(inputs)
import traceback
fn = getattr(mod, job["harness"])
try:
    fn(s, **job["params"])
except Exception:
    traceback.print_exc()
print("covers", s.covers, "failed", s.failed, "checks", len(s.checks))
