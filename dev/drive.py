import sys, json, time
sys.path.insert(0, "/verif"); sys.path.insert(0, "/repo"); sys.path.insert(0, "/verif/harness")
from psx import runner
import importlib
modname, tier = sys.argv[1], sys.argv[2]
mod = importlib.import_module(modname)
jobs = mod.jobs(tier, 0)
if len(sys.argv) > 3:
    jobs = [jobs[int(i)] for i in sys.argv[3].split(",")]
t=time.time()
for j in jobs:
    r = runner.run_job({"prop": mod.PROPERTY, "module": modname, "job": j, "tier": tier, "seed": 0})
    if "crash" in r: print(r["crash"]); continue
    print(j["params"]); print({k: r[k] for k in ("paths","path_reasons","obligations","discharged","trivial","violations","spurious","inconclusive","validated","validation_mismatch","solver_calls","solver_time","max_query","wall_s","covers","cuts","exc_paths","known_hits")})
print(time.time()-t)
