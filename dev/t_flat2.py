import sys, time
sys.path.insert(0, "/verif"); sys.path.insert(0, "/repo")
import z3
from psx import sstr, rx
from psx.sstr import SymStr, Atom, mk
from psx.terms import *
from psx.native import class_ranges
from productmd.common import RPM_NVRA_RE, RPM_ARCHES
NAMEC = ["a-z", "A-Z", "0-9", ".", "_", "+", "-"]
VERC = ["a-z", "A-Z", "0-9", ".", "_", "+", "~", "^"]
def var(name, m, minlen, alpha, cons):
    a = sstr.new_atom(name, m); cons += a.domain_constraints(); cons.append(a.n >= minlen)
    r = class_ranges(alpha)
    if r:
        for c in a.c: cons.append(in_ranges(c, r))
    return a
mode = sys.argv[1]
cons = []
def define(atom, tag):
    """fresh variables equal to the atom's terms"""
    if "fresh" not in mode: return atom
    b = sstr.new_atom(tag, atom.m)
    cons.append(b.n == atom.n)
    for k in range(atom.m):
        cons.append(z3.Implies(k < b.n, b.c[k] == atom.c[k]) if not isinstance(atom.c[k], int) or True else True)
    return b
name = var("name", 8, 1, NAMEC, cons); ver = var("ver", 5, 1, VERC, cons); rel = var("rel", 5, 1, VERC, cons)
arch = sstr.new_atom("arch", 12); cons += arch.domain_constraints(); cons.append(z3.Or(*[arch.eq_lit(o) for o in RPM_ARCHES]))
s = mk([name, "-", ver, "-", rel, ".", arch])
a = define(s.flat(), "flat1")
prog = rx.program(RPM_NVRA_RE.pattern)
enc = rx.Enc(prog, a)
ok = enc.matched()
sol = z3.Solver(); sol.add(cons); sol.add(ok)
gi = RPM_NVRA_RE.groupindex
parts = {}
for g in ("name", "version", "release", "arch"):
    p, st, en = enc.group(gi[g])
    sol.add(p)
    if "fresh" in mode:
        st2, en2 = z3.Int(g + ".st"), z3.Int(g + ".en"); sol.add(st2 == st, en2 == en); st, en = st2, en2
    parts[g] = define(a.slice(st, en), "sl." + g)
sol.add(cons)
canon = mk([parts["name"], "-0:", parts["version"], "-", parts["release"], ".", parts["arch"]])
t0 = time.time()
b = define(canon.flat(), "flat2")
sol.add(cons)
enc2 = rx.Enc(prog, b)
ok2 = enc2.matched()
print("encode2", time.time() - t0, b.m)
for label, q in (("matched", ok2), ("notmatched", z3.Not(ok2))):
    sol.push(); sol.add(q); t = time.time(); r = sol.check(); print(label, r, round(time.time() - t, 2)); sol.pop()
