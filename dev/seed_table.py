import json, glob, os
rows = []
for f in sorted(glob.glob("/verif/seeded/*/meta.json")):
    m = json.load(open(f))
    v = (m["check_result_on_repo"]["violation"] or [""])
    lab = ""
    if len(v) > 1 and "check=" in v[1]:
        lab = v[1].split("check=")[1].split(" inputs=")[0].strip("'\"")
        h = v[1].split("harness=")[1].split(" ")[0]
        lab = "%s / `%s`" % (h, lab)
    rows.append("| %s | %s | %s | %s | %s | %s |" % (m["id"], m["property"], m["needs_to_manifest"].replace("|", "\\|")[:220], "yes" if m["detected"] else ("thorough tier only" if m.get("detected_by_thorough_tier") else "**no**"),
                lab.replace("|", "\\|")[:90], ("first attempt" if m.get("detected_at_first_attempt") else ("after: " + m.get("strengthening", "")[:200])) if m.get("detected_at_first_attempt") is not None else ""))
print("| Seed | Property | Needs, to manifest | Detected by the quick check | Harness / check that fires | At first attempt? |")
print("|------|----------|--------------------|-----------------------------|----------------------------|-------------------|")
print("\n".join(rows))
