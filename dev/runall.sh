#!/bin/sh
# run every quick check sequentially, print a summary line each
cd "$(dirname "$0")/.."
for i in 01 02 03 04 05 06 07 08 09 10 11 12 13 14 15 16 17 18 19 20; do
  s=$(date +%s)
  timeout 3000 ./check C$i --tier ${1:-quick} > /tmp/run_C$i.out 2>&1
  rc=$?
  e=$(date +%s)
  echo "C$i exit=$rc $((e-s))s $(grep -c KNOWN-FINDING /tmp/run_C$i.out) known | $(grep "^C$i " /tmp/run_C$i.out | cut -c1-200)"
done
