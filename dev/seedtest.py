"""evaluate a seeded change: seedtest.py <Cxx> [--tier quick|thorough] [--src DIR] [--on-repo]
 default: run the check against the agent's worktree (PSX_REPO), leaving /repo untouched.
 --on-repo: apply the patch to /repo, run, and always restore."""
import json, os, shutil, subprocess, sys, time
pid = sys.argv[1]
tier = "quick"
src = "/tmp/mut/out/%s" % pid
on_repo = "--on-repo" in sys.argv
if "--tier" in sys.argv: tier = sys.argv[sys.argv.index("--tier") + 1]
if "--src" in sys.argv: src = sys.argv[sys.argv.index("--src") + 1]
prop = pid.split("-")[0].split("_")[0]
patch = os.path.join(src, "patch.diff")
res = {"property": prop, "id": pid, "tier": tier}
def run(cmd, env=None, timeout=3000, cwd=None):
    e = dict(os.environ); e.update(env or {})
    p = subprocess.run(cmd, shell=True, capture_output=True, text=True, env=e, timeout=timeout, cwd=cwd)
    return p.returncode, (p.stdout + p.stderr)
# scratch checkout with the patch applied
work = "/tmp/mut/eval_%s" % pid
subprocess.run(["git", "-C", "/repo", "worktree", "remove", "--force", work], capture_output=True)
rc, out = run("git -C /repo worktree add -q --detach %s HEAD" % work); assert rc == 0, out
try:
    rc, out = run("git -C %s apply %s" % (work, patch)); res["patch_applies"] = rc == 0
    assert rc == 0, out
    rc, out = run("cd %s && PYTHONPATH=%s /venv/bin/python -m pytest -q -p no:cacheprovider 2>&1 | tail -1" % (work, work)); res["tests"] = out.strip()
    rc, out = run("PYTHONPATH=%s /venv/bin/python %s/demo.py" % (work, src), timeout=600); res["demo_changed_exit"] = rc; res["demo_changed_out"] = out[-600:]
    rc, out = run("PYTHONPATH=/repo /venv/bin/python %s/demo.py" % src, timeout=600); res["demo_unchanged_exit"] = rc
    t = time.time()
    if on_repo:
        assert subprocess.run(["git", "-C", "/repo", "status", "--porcelain"], capture_output=True, text=True).stdout.strip() == ""
        try:
            run("git -C /repo apply %s" % patch)
            rc, out = run("/verif/check %s --tier %s" % (prop, tier), timeout=7000)
        finally:
            subprocess.run(["git", "-C", "/repo", "checkout", "--", "."])
    else:
        rc, out = run("/verif/check %s --tier %s" % (prop, tier), env={"PSX_REPO": work, "PSX_EVIDENCE_DIR": "/tmp/mut/evidence_scratch"}, timeout=7000)
    res["check_exit"] = rc; res["check_wall_s"] = round(time.time() - t, 1)
    lines = out.strip().splitlines()
    res["check_summary"] = [l[:400] for l in lines if l.startswith(prop + " ")][:1]
    res["check_violation"] = [l[:500] for l in lines if l.startswith("VIOLATION") or l.startswith("  harness=")][:4]
    res["check_errors"] = [l[:400] for l in lines if l.startswith("ENGINE-ERROR")][:4]
finally:
    subprocess.run(["git", "-C", "/repo", "worktree", "remove", "--force", work], capture_output=True)
print(json.dumps(res, indent=1))
json.dump(res, open("/tmp/mut/out/%s/result_%s.json" % (pid, tier), "w"), indent=1)
