"""apply a textual mutation to /repo, run a check, always restore. usage: muttest.py PROP FILE OLD NEW [--tests]"""
import subprocess, sys, os
prop, f, old, new = sys.argv[1:5]
p = os.path.join("/repo", f)
src = open(p).read()
assert src.count(old) >= 1, "pattern not found"
assert subprocess.run(["git", "-C", "/repo", "status", "--porcelain"], capture_output=True, text=True).stdout.strip() == "", "repo dirty"
try:
    open(p, "w").write(src.replace(old, new, 1))
    if "--tests" in sys.argv:
        r = subprocess.run("cd /repo && /venv/bin/python -m pytest -q -p no:cacheprovider -x 2>&1 | tail -1", shell=True, capture_output=True, text=True)
        print("tests:", r.stdout.strip())
    r = subprocess.run(["timeout", "1500", "/verif/check", prop], capture_output=True, text=True)
    out = r.stdout.strip().splitlines()
    print("exit", r.returncode)
    for l in out[:6]:
        print("  ", l[:400])
finally:
    subprocess.run(["git", "-C", "/repo", "checkout", "--", "."])
