"""regenerate MANIFEST.json from the table below (development helper)"""
import json, os
HERE = os.path.dirname(os.path.dirname(os.path.abspath(__file__)))
CLAIMED = json.load(open(os.path.join(HERE, "dev", "claims.json")))
props = [json.loads(l) for l in open(os.path.join(HERE, "properties.jsonl"))]
checks = []
na = []
for p in props:
    pid = p["id"]
    c = CLAIMED.get(pid)
    if c is None or c.get("not_applicable"):
        na.append({"property_id": pid, "reason": (c or {}).get("not_applicable", "check not built yet (under construction in this session)")})
        continue
    checks.append({
        "property_id": pid,
        "quick_cmd": "./check %s --tier quick" % pid,
        "thorough_cmd": "./check %s --tier thorough" % pid,
        "evidence_file": "evidence/%s.json" % pid,
        "replay_cmd_template": "./check %s --replay {path}" % pid,
        "engine": "psx",
        "level_claimed": {"category": "other", "text": c["text"], "design_ref": c.get("design_ref", "DESIGN.md section 4, %s" % pid)},
        "level_note": c["note"],
        "technique": c["technique"],
    })
m = {
    "version": 1,
    "setup_cmd": "./setup.sh",
    "hooks": {"guard": "PRODUCTMD_VERIF", "enable": "no hooks: the checks read /repo's source and drive its public API; the guard name is reserved and unused",
              "baseline_off_cmd": "cd /repo && /venv/bin/python -m pytest -ra -q -p no:cacheprovider --timeout=900 --continue-on-collection-errors",
              "source_commits": [], "add_only": True},
    "engines": [{"name": "psx", "path": "psx/", "serves_properties": [c["property_id"] for c in checks],
                 "kind_free_text": "AST-driven bounded symbolic executor for the Python subset productmd uses (real objects, symbolic leaves, regex backtracking-VM and bounded-string encodings), every verdict decided by z3; counterexamples replayed natively"}],
    "checks": checks,
    "not_applicable": na,
    "notes": "Bounded symbolic execution of the real source; see DESIGN.md. Exit 2 = engine error (never a verdict).",
}
json.dump(m, open(os.path.join(HERE, "MANIFEST.json"), "w"), indent=1)
print(len(checks), "claimed,", len(na), "not applicable")
