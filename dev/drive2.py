import sys, json, time, faulthandler
faulthandler.dump_traceback_later(int(sys.argv[3]) if len(sys.argv)>3 else 60, exit=True)
import os; sys.path.insert(0, "/verif"); sys.path.insert(0, os.environ.get("PSX_REPO", "/repo")); sys.path.insert(0, "/verif/harness")
from psx import runner
import importlib
mod = importlib.import_module(sys.argv[1])
tier = sys.argv[4] if len(sys.argv) > 4 else "quick"
j = mod.jobs(tier, 0)[int(sys.argv[2])]
print(j)
r = runner.run_job({"prop": mod.PROPERTY, "module": sys.argv[1], "job": j, "tier": tier, "seed": 0})
print(r.get("crash") or {k: r[k] for k in ("paths","path_reasons","obligations","discharged","trivial","violations","spurious","inconclusive","validated","validation_mismatch","solver_calls","solver_time","max_query","wall_s","covers","cuts","exc_paths","known_hits")})
