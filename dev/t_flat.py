import sys, time
sys.path.insert(0, "/verif"); sys.path.insert(0, "/repo")
import z3
from psx import sstr, rx
from psx.sstr import SymStr, Atom, mk
from psx.terms import *
from psx.native import class_ranges
from productmd.common import RPM_NVRA_RE, RPM_ARCHES
NAMEC = ["a-z", "A-Z", "0-9", ".", "_", "+", "-"]
VERC = ["a-z", "A-Z", "0-9", ".", "_", "+", "~", "^"]
def var(name, m, minlen, alpha, cons):
    a = sstr.new_atom(name, m); cons += a.domain_constraints(); cons.append(a.n >= minlen)
    r = class_ranges(alpha)
    if r:
        for c in a.c: cons.append(in_ranges(c, r))
    return a
mode = sys.argv[1]
cons = []
name = var("name", 8, 1, NAMEC, cons); ver = var("ver", 5, 1, VERC, cons); rel = var("rel", 5, 1, VERC, cons)
if "lit" in mode:
    arch = "x86_64"
else:
    arch = sstr.new_atom("arch", 12); cons += arch.domain_constraints(); cons.append(z3.Or(*[arch.eq_lit(o) for o in RPM_ARCHES]))
s = mk([name, "-", ver, "-", rel, ".", arch])
t0 = time.time()
a = s.flat()
print("flatten", time.time() - t0, a.m)
prog = rx.program(RPM_NVRA_RE.pattern)
enc = rx.Enc(prog, a)
ok = enc.matched()
print("encode", time.time() - t0)
sol = z3.Solver(); sol.add(cons)
for label, q in (("matched", ok), ("notmatched", z3.Not(ok))):
    sol.push(); sol.add(q); t = time.time(); r = sol.check(); print(label, r, round(time.time() - t, 2)); sol.pop()
