"""re-evaluate every stored seeded change against the current checks (scratch worktree + PSX_REPO; /repo is not touched):
   seed_regress.py [ids...]  ->  /verif/seeded/regression.json"""
import glob, json, os, subprocess, sys, time
ids = sys.argv[1:] or sorted(os.path.basename(os.path.dirname(f)) for f in glob.glob("/verif/seeded/C*/meta.json"))
out_path = "/verif/seeded/regression.json"
res = json.load(open(out_path)) if os.path.exists(out_path) else {}
head = subprocess.check_output(["git", "-C", "/repo", "rev-parse", "--short", "HEAD"], text=True).strip()
for pid in ids:
    prop = pid.split("-")[0]
    wt = "/tmp/mut/rg_%s" % pid
    subprocess.run(["git", "-C", "/repo", "worktree", "remove", "--force", wt], capture_output=True)
    subprocess.run(["git", "-C", "/repo", "worktree", "add", "-q", "--detach", wt, "HEAD"], check=True)
    try:
        p = subprocess.run(["git", "-C", wt, "apply", "/verif/seeded/%s/patch.diff" % pid], capture_output=True, text=True)
        if p.returncode != 0:
            p = subprocess.run(["git", "-C", wt, "apply", "--3way", "/verif/seeded/%s/patch.diff" % pid], capture_output=True, text=True)
        if p.returncode != 0:
            res[pid] = {"repo_head": head, "applies": False, "note": "the patch no longer applies to the repaired tree (a later fix: commit touches the same lines)"}
            print(pid, "does not apply", flush=True)
            continue
        t = time.time()
        env = dict(os.environ, PSX_REPO=wt, PSX_EVIDENCE_DIR="/tmp/mut/evidence_scratch")
        demo = subprocess.run(["/venv/bin/python", "/verif/seeded/%s/demo.py" % pid], capture_output=True, text=True, env=dict(os.environ, PYTHONPATH=wt), timeout=900)
        c = subprocess.run(["/verif/check", prop], capture_output=True, text=True, env=env, timeout=7000)
        lines = c.stdout.splitlines()
        res[pid] = {"repo_head": head, "applies": True, "demo_exit": demo.returncode, "check_exit": c.returncode, "wall_s": round(time.time() - t, 1),
                    "fires": [l.strip()[:300] for l in lines if l.startswith("  harness=")][:1]}
        print(pid, "demo", demo.returncode, "check", c.returncode, res[pid]["wall_s"], flush=True)
    finally:
        subprocess.run(["git", "-C", "/repo", "worktree", "remove", "--force", wt], capture_output=True)
        json.dump(res, open(out_path, "w"), indent=1, sort_keys=True)
