"""confirm each seeded change on /repo itself (apply, run the quick check, undo) and store it under /verif/seeded/<id>/"""
import json, os, shutil, subprocess, sys, time
ids = sys.argv[1:]
first_try = json.load(open("/verif/dev/seed_first_try.json")) if os.path.exists("/verif/dev/seed_first_try.json") else {}
for pid in ids:
    src = "/tmp/mut/out/%s" % pid
    prop = pid.split("-")[0]
    p = subprocess.run([sys.executable, "/verif/dev/seedtest.py", pid, "--on-repo"], capture_output=True, text=True)
    try:
        res = json.loads(p.stdout[p.stdout.index("{"):])
    except Exception:
        print(pid, "FAILED", p.stdout[-500:], p.stderr[-500:]); continue
    ok = res["tests"].startswith("90 passed") and res["demo_changed_exit"] == 1 and res["demo_unchanged_exit"] == 0
    dst = "/verif/seeded/%s" % pid
    os.makedirs(dst, exist_ok=True)
    for f in ("patch.diff", "demo.py", "notes.md"):
        shutil.copy(os.path.join(src, f), os.path.join(dst, f))
    notes = open(os.path.join(src, "notes.md")).read()
    meta = {
        "id": pid, "property": prop,
        "origin": "written by an independent sub-agent that was given only the property text and its own scratch worktree of /repo (nothing from /verif)",
        "needs_to_manifest": first_try.get(pid, {}).get("needs", notes.strip().split("\n\n")[0][:600]),
        "confirmed_by_me": {
            "patch_applies_to_repo_head": res["patch_applies"], "test_suite_with_change": res["tests"],
            "demo_exit_with_change": res["demo_changed_exit"], "demo_exit_without_change": res["demo_unchanged_exit"],
            "commands": ["git -C <scratch worktree of /repo HEAD> apply patch.diff", "cd <worktree> && PYTHONPATH=<worktree> /venv/bin/python -m pytest -q -p no:cacheprovider",
                         "PYTHONPATH=<worktree> /venv/bin/python demo.py (expect 1)", "PYTHONPATH=/repo /venv/bin/python demo.py (expect 0)",
                         "git -C /repo apply patch.diff && ./check %s --tier quick ; git -C /repo checkout -- ." % prop],
        },
        "check_result_on_repo": {"exit": res["check_exit"], "wall_s": res["check_wall_s"], "summary": res["check_summary"], "violation": res["check_violation"], "errors": res["check_errors"]},
        "detected": res["check_exit"] == 1,
        "detected_at_first_attempt": first_try.get(pid, {}).get("first", None),
        "strengthening": first_try.get(pid, {}).get("strengthening", ""),
        "valid_seed": ok,
    }
    json.dump(meta, open(os.path.join(dst, "meta.json"), "w"), indent=1)
    print(pid, "valid" if ok else "INVALID", "detected" if meta["detected"] else "MISSED exit=%s" % res["check_exit"], res["check_wall_s"], "s", flush=True)
