#!/bin/sh
# Build the overlay virtualenv the checks run in (offline, from the wheelhouse).
# Idempotent: safe to call from every check.
set -e
cd "$(dirname "$0")"
V=.venv
if [ ! -x "$V/bin/python" ] || ! "$V/bin/python" -c 'import z3, six' 2>/dev/null; then
    rm -rf "$V"
    /venv/bin/python -m venv "$V"
    SP=$("$V/bin/python" -c 'import sysconfig; print(sysconfig.get_paths()["purelib"])')
    # see the repository's own dependencies (six, pytest) without touching /venv
    printf '%s\n' "/venv/lib/python3.12/site-packages" > "$SP/overlay.pth"
    PIP_NO_INDEX=1 "$V/bin/python" -m pip install -q --no-index --find-links /opt/veriftools/wheels z3-solver cvc5 >/dev/null
fi
"$V/bin/python" -c 'import z3, six; print("overlay venv ok: z3", z3.get_version_string())'
# engine sanity: the repository's own tests with every productmd function executed by the psx interpreter
PYTHONPATH=/repo "$V/bin/python" psx/tests_under_interp.py 2>/dev/null | tail -2 || true
