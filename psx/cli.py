"""command line entry: python -m psx.cli <property> [--tier quick|thorough] [--replay file]"""
import argparse
import importlib
import json
import os
import sys
import time

HERE = os.path.dirname(os.path.dirname(os.path.abspath(__file__)))


def main():
    ap = argparse.ArgumentParser()
    ap.add_argument("prop")
    ap.add_argument("--tier", default=os.environ.get("VERIF_TIER", "quick"))
    ap.add_argument("--replay")
    ap.add_argument("--jobs", help="comma separated job indices (development)")
    ap.add_argument("--workers", type=int)
    a = ap.parse_args()
    seed = int(os.environ.get("VERIF_SEED", "0") or 0)
    sys.path.insert(0, os.path.join(HERE, "harness"))
    sys.path.insert(0, os.environ.get("PSX_REPO", "/repo"))
    from . import runner
    if a.replay:
        res = runner.replay_file(a.replay)
        print(json.dumps(res, indent=1, sort_keys=True, default=str))
        if res.get("reproduced"):
            print("VIOLATION property=%s replay=%s" % (a.prop, a.replay))
            return 1
        print("not reproduced")
        return 0
    tier = a.tier if a.tier in ("quick", "thorough") else "quick"
    mod = importlib.import_module(a.prop)
    if hasattr(mod, "run"):
        return mod.run(tier, seed)
    jobs = mod.jobs(tier, seed)
    if a.jobs:
        jobs = [jobs[int(i)] for i in a.jobs.split(",")]
    return runner.run_check(a.prop, a.prop, tier, seed, jobs, getattr(mod, "META", {}), nproc=a.workers)


if __name__ == "__main__":
    sys.exit(main())
