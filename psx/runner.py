"""Check runner: jobs -> paths -> obligations -> verdicts -> replay -> evidence.

Exit codes: 0 property held on everything explored (KNOWN-FINDING lines possible)
            1 a replayed, unlisted violation ("VIOLATION property=<id> replay=<path>")
            2 engine error (spurious model, unsupported construct on the unchanged tree, vacuous harness, ...)
"""
import collections
import hashlib
import importlib
import json
import multiprocessing
import os
import subprocess
import sys
import time
import traceback

HERE = os.path.dirname(os.path.dirname(os.path.abspath(__file__)))
REPO = os.environ.get("PSX_REPO", "/repo")
HARNESS_DIR = os.path.join(HERE, "harness")
NATIVE_PY = os.environ.get("PSX_NATIVE_PYTHON", "/venv/bin/python")
REPLAY_DIR = os.path.join(HERE, "replays")
KNOWN_FILE = os.path.join(HERE, "known_findings.json")


def load_known(prop):
    try:
        with open(KNOWN_FILE) as f:
            data = json.load(f)
    except FileNotFoundError:
        return []
    return [k for k in data.get("findings", []) if k.get("property") == prop and k.get("status", "known") == "known"]


def _digest(obj):
    return hashlib.sha1(json.dumps(obj, sort_keys=True, default=str).encode()).hexdigest()[:12]


class JobContext(object):
    def __init__(self, prop, module, harness, params, known, validate_every, max_replays=6):
        self.prop = prop
        self.module = module
        self.harness = harness
        self.params = params
        self.known = [k for k in known if k.get("harness") in (None, harness)]
        self.bounds = {}
        self.covers = {}
        self.notes = {}
        self.n_obl = 0
        self.n_trivial = 0
        self.n_discharged = 0
        self.inconclusive = []
        self.violations = []
        self.known_hits = {}
        self.spurious = []
        self.samples = []
        self.distinct = set()
        self.paths = collections.Counter()
        self.path_reasons = collections.Counter()
        self.validated = 0
        self.validation_mismatch = []
        self.validate_every = validate_every
        self.max_replays = max_replays
        self.replays_done = 0
        self.witness = None
        self.exc_paths = collections.Counter()
        self.I = None
        self.sym = None
        self.pending = []
        self.scratch = []
        self.hashseeds = 0
        self.env_nondet = False
        self.cross_left = 0
        self.cross_done = []
        self.cross_disagree = []

    # -- known findings ------------------------------------------------------------------------
    def known_for(self, label):
        return [k for k in self.known if k.get("label") in (None, label)]

    def known_term(self, k, sym):
        """the finding's predicate over the inputs declared on this path, as a Bool term (None if not evaluable)"""
        from .values import Control, bterm, SymBool
        env = dict(self.params)
        env.update(sym.symbolic_env())
        try:
            v = self.I.eval_expr_string(k["predicate"], env)
        except Control:
            raise
        except Exception:
            return None
        t = self.I.truth_term(v)
        return t

    def known_matches(self, k, inputs):
        env = dict(self.params)
        env.update(inputs)
        try:
            return bool(eval(k["predicate"], {"__builtins__": {"len": len, "any": any, "all": all, "str": str, "int": int, "ord": ord, "min": min, "max": max, "abs": abs, "isinstance": isinstance, "sorted": sorted, "set": set}}, env))
        except Exception:
            return False

    # -- obligations ------------------------------------------------------------------------------
    def obligation(self, sym, label, t):
        """queue an obligation; consecutive obligations share one path condition and are discharged as a batch"""
        from .terms import is_true
        self.n_obl += 1
        if t is True or is_true(t):
            self.n_trivial += 1
            self.n_discharged += 1
            return
        try:
            h = t.hash() if not isinstance(t, bool) else int(t)
        except Exception:
            h = id(t)
        self.distinct.add((label, h, len(self.I.pc)))
        self.pending.append((label, t))

    def flush(self):
        from .terms import Not, And, Or
        if not self.pending:
            return
        pend, self.pending = self.pending, []
        I = self.I
        sym = self.sym
        items = []
        for label, t in pend:
            kn = []
            for k in self.known_for(label):
                kt = self.known_term(k, sym)
                if kt is not None:
                    kn.append((k, kt))
            q = And(Not(t), *[Not(kt) for _, kt in kn])
            items.append([label, t, kn, q])
        if self.cross_left > 0 and not self.I.fresh_mode:
            self.cross_left -= 1
            self.cross_check(Or(*[it[3] for it in items]))
        t0 = time.time()
        if os.environ.get("PSX_NOBATCH"):
            for it in items:
                tt = time.time()
                rr = self.check_model(it[3])[0]
                if time.time() - tt > 1:
                    sys.stderr.write("[psx] slow obligation %r %s %.1fs\n" % (it[0], rr, time.time() - tt))
        if len(items) > 1:
            r, m = self.check_model(Or(*[it[3] for it in items]))
        else:
            r, m = self.check_model(items[0][3])
        dt = time.time() - t0
        verdicts = {}
        if r == "unsat":
            for it in items:
                verdicts[id(it)] = ("unsat", None)
        elif len(items) == 1:
            verdicts[id(items[0])] = (r, m)
        else:
            for it in items:
                if r == "sat" and z3_true(m, it[3]):
                    verdicts[id(it)] = ("sat", m)
                else:
                    verdicts[id(it)] = self.check_model(it[3])
        for it in items:
            label, t, kn, q = it
            v, mm = verdicts[id(it)]
            if len(self.samples) < 4 or (v != "unsat" and len(self.samples) < 8):
                self.samples.append({"harness": self.harness, "params": self.params, "label": label, "decisions": I.pos,
                                     "path_constraints": len(I.pc), "verdict": v, "batch": len(items), "batch_time_s": round(dt, 3),
                                     "assertion": _short(t)})
            if v == "unsat":
                self.n_discharged += 1
            elif v == "sat":
                self.candidate(sym, label, sym.concrete_inputs(mm), None)
            else:
                self.inconclusive.append({"label": label, "reason": "solver unknown"})
            for k, kt in kn:
                if k["id"] in self.known_hits:
                    continue
                r2, m2 = self.check_model(Not(t), kt)
                if r2 == "sat":
                    self.candidate(sym, label, sym.concrete_inputs(m2), k)

    def cross_check(self, query):
        """re-decide one obligation batch with two other solvers (z3 4.8.12 binary, cvc5 binary) on its SMT-LIB2 export"""
        import z3
        import tempfile
        I = self.I
        s = I.solver
        s.push()
        try:
            s.add(query if not isinstance(query, bool) else z3.BoolVal(query))
            text = s.to_smt2()
            ours = str(s.check())
        finally:
            s.pop()
        if ours not in ("sat", "unsat"):
            return
        rec = {"ours": ours}
        with tempfile.NamedTemporaryFile("w", suffix=".smt2", delete=False) as f:
            f.write("(set-logic ALL)\n" + text)
            path = f.name
        try:
            for name, cmd in (("z3-4.8.12", ["/usr/bin/z3", "-T:60", path]), ("cvc5-1.0", ["cvc5", "--tlimit=60000", path])):
                try:
                    p = subprocess.run(cmd, capture_output=True, text=True, timeout=90)
                    out = (p.stdout or "").strip().splitlines()
                    ans = out[0].strip() if out else "none"
                    if "(error" in (p.stdout or "") or "(error" in (p.stderr or ""):
                        ans = "error"
                except subprocess.TimeoutExpired:
                    ans = "timeout"
                except FileNotFoundError:
                    ans = "unavailable"
                rec[name] = ans
                if ans in ("sat", "unsat") and ans != ours:
                    self.cross_disagree.append(dict(rec))
        finally:
            os.unlink(path)
        self.cross_done.append(rec)

    def check_model(self, *extra):
        """(verdict, model) for path condition + extra; retries an `unknown` with a fresh solver"""
        import z3
        I = self.I
        if not extra and I.model is not None:
            return "sat", I.model
        if os.environ.get("PSX_DUMP") and not I.fresh_mode:
            I.solver.push()
            for e in extra:
                I.solver.add(e)
            _dump(I.solver)
            I.solver.pop()
        r, m = I._check(*extra)
        if r == "unknown":
            s2 = z3.Solver()
            s2.set("timeout", I.solver_timeout_ms * 2)
            s2.set("random_seed", 7)
            for c in I.pc:
                s2.add(c if not isinstance(c, bool) else z3.BoolVal(c))
            for e in extra:
                s2.add(e if not isinstance(e, bool) else z3.BoolVal(e))
            r = str(s2.check())
            m = s2.model() if r == "sat" else None
            I.stats.solver_calls += 1
        return r, m

    # -- counterexamples ----------------------------------------------------------------------------
    def candidate(self, sym, label, inputs, known):
        """a sat obligation: replay natively, then classify"""
        if self.replays_done >= self.max_replays and known is None and self.violations:
            return
        rep = {
            "property": self.prop, "module": self.module, "harness": self.harness, "harness_dir": HARNESS_DIR,
            "sys_path": [REPO, HERE], "params": self.params, "inputs": inputs, "label": label,
        }
        if self.hashseeds:
            rep["hashseeds"] = list(range(self.hashseeds))
        d = os.path.join(REPLAY_DIR, self.prop)
        os.makedirs(d, exist_ok=True)
        path = os.path.join(d, "%s-%s.json" % (self.harness, _digest([self.params, inputs, label])))
        with open(path, "w") as f:
            json.dump(rep, f, indent=1, sort_keys=True)
        self.replays_done += 1
        res = replay_file(path)
        if not res.get("reproduced"):
            self.spurious.append({"label": label, "replay": path, "native": {k: res.get(k) for k in ("failed", "exception", "assume_failed", "bad_input", "diverged", "error")}})
            return
        # classify the replayed violation
        for k in self.known_for(label):
            if self.known_matches(k, inputs):
                if k["id"] not in self.known_hits:
                    self.known_hits[k["id"]] = {"replay": path, "what": k.get("what", ""), "label": label}
                return
        if known is not None:
            return
        self.violations.append({"label": label, "replay": path, "inputs": inputs, "native": res.get("exception") or res.get("failed")})
        if len(self.violations) >= 1:
            from .values import StopExploration
            raise StopExploration()

    # -- end of path --------------------------------------------------------------------------------
    def on_path(self, outcome):
        kind, val = outcome
        self.paths[kind] += 1
        sym = self.sym
        I = self.I
        if kind == "exc":
            # an exception escaping the harness on a feasible path is itself a violated obligation
            name = type(val).__name__
            self.exc_paths[name] += 1
            self.n_obl += 1
            label = "<exception>"
            kn = []
            for k in self.known_for(label):
                kt = self.known_term(k, sym)
                if kt is not None:
                    kn.append((k, kt))
            from .terms import Not
            r, m = self.check_model(*[Not(kt) for _, kt in kn])
            if r == "sat":
                self.candidate(sym, label, sym.concrete_inputs(m), None)
            elif r == "unsat":
                self.n_discharged += 1
            else:
                self.inconclusive.append({"label": label, "reason": "solver unknown"})
            for k, kt in kn:
                if k["id"] in self.known_hits:
                    continue
                r2, m2 = self.check_model(kt)
                if r2 == "sat":
                    self.candidate(sym, label, sym.concrete_inputs(m2), k)
            return
        if kind in ("cut", "infeasible"):
            if kind == "cut":
                self.path_reasons["cut: " + str(val)] += 1
            return
        if kind != "ok":
            txt = str(val)
            self.path_reasons["%s: %s" % (kind, txt if len(txt) <= 300 else txt[:120] + " [...] " + txt[-600:])] += 1
            return
        n = self.paths["ok"]
        if self.validate_every and (n <= 3 or n % self.validate_every == 0):
            self.validate_path(sym)

    def validate_path(self, sym):
        """differential check of the engine: run the harness natively on a model of this path"""
        from . import interp as _interp
        from .native import run_native, load_harness
        from .terms import Not
        excl = []
        for k in self.known:
            kt = self.known_term(k, sym)
            if kt is not None:
                excl.append(Not(kt))
        r, m = self.check_model(*excl)
        if r != "sat":
            return
        inputs = sym.concrete_inputs(m)
        if any(self.known_matches(k, inputs) for k in self.known):
            return
        if self.witness is None:
            self.witness = inputs
        fn = load_harness(self.module, self.harness, HARNESS_DIR)
        fn = getattr(fn, "__psx_orig__", fn)
        saved = _interp.CURRENT[0]
        _interp.CURRENT[0] = None
        try:
            res = run_native(fn, inputs, self.params)
        finally:
            _interp.CURRENT[0] = saved
        self.validated += 1
        exp_covers = list(sym.path_covers_full)
        exp_checks = list(sym.path_checks_full)
        bad = None
        if res["assume_failed"] or res["bad_input"]:
            bad = "native run rejects the model (assume/declared domain)"
        elif res["exception"] is not None:
            bad = "native run raised %s" % res["exception"]["type"]
        elif res["failed"]:
            bad = "native run fails checks %s that the solver discharged" % res["failed"]
        elif self.env_nondet:
            pass            # the native environment (e.g. directory listing order) may follow another explored path
        elif res["covers"] != exp_covers:
            bad = "native run reached cover points %s, symbolic path %s" % (res["covers"], exp_covers)
        elif res["checks"] != exp_checks:
            bad = "native run evaluated checks %s, symbolic path %s" % (res["checks"][:20], exp_checks[:20])
        if bad:
            self.validation_mismatch.append({"reason": bad, "inputs": inputs, "native": res.get("exception")})

    def result(self):
        st = self.I.stats
        return {
            "harness": self.harness, "params": self.params, "bounds": self.bounds, "covers": self.covers,
            "notes": self.notes, "obligations": self.n_obl, "trivial": self.n_trivial, "discharged": self.n_discharged,
            "inconclusive": self.inconclusive, "violations": self.violations, "known_hits": self.known_hits,
            "spurious": self.spurious, "samples": self.samples, "distinct": len(st.distinct_queries), "distinct_obligations": len(self.distinct),
            "paths": dict(self.paths), "path_reasons": dict(self.path_reasons), "validated": self.validated,
            "validation_mismatch": self.validation_mismatch, "witness": self.witness, "exc_paths": dict(self.exc_paths),
            "solver_calls": st.solver_calls, "solver_time": round(st.solver_time, 3), "max_query": round(st.max_query, 3),
            "steps": st.steps, "unknown": st.unknown, "functions": st.functions, "patterns": sorted(st.patterns),
            "cross_done": self.cross_done, "cross_disagree": self.cross_disagree, "fresh_solver_calls": st.fresh_solver_calls,
            "cuts": st.cuts, "on_demand": sorted(st.on_demand),
        }


_DUMPN = [0]


def _dump(s):
    _DUMPN[0] += 1
    with open(os.path.join(os.environ["PSX_DUMP"], "q%03d.smt2" % _DUMPN[0]), "w") as f:
        f.write(s.to_smt2())


def z3_true(m, t):
    import z3
    if isinstance(t, bool):
        return t
    return z3.is_true(m.eval(t, model_completion=True))


def _short(t):
    try:
        s = t.sexpr() if not isinstance(t, bool) else str(t)
    except Exception:
        s = str(t)
    s = " ".join(s.split())
    return s if len(s) <= 300 else s[:300] + " ..."


def replay_file(path):
    """run the recorded counterexample natively in a fresh interpreter.  When the replay file asks for it (checks about
    hash-seed independence) the run is repeated under several PYTHONHASHSEED values; one failing run reproduces it."""
    try:
        with open(path) as f:
            seeds = json.load(f).get("hashseeds") or [None]
    except Exception:
        seeds = [None]
    res = {"reproduced": False, "error": "no run"}
    for hs in seeds:
        env = dict(os.environ)
        env["PYTHONPATH"] = REPO
        env.pop("PYTHONHASHSEED", None)
        if hs is not None:
            env["PYTHONHASHSEED"] = str(hs)
        try:
            p = subprocess.run([NATIVE_PY, os.path.join(HERE, "psx", "native.py"), path], capture_output=True, text=True,
                               env=env, timeout=300, cwd="/")
        except subprocess.TimeoutExpired:
            res = {"reproduced": False, "error": "native replay timed out"}
            continue
        try:
            res = json.loads(p.stdout)
        except Exception:
            res = {"reproduced": False, "error": "native replay failed: %s %s" % (p.stdout[-500:], p.stderr[-1500:])}
        if hs is not None:
            res["hashseed"] = hs
        if res.get("reproduced"):
            return res
    return res


# ---------------------------------------------------------------------------------------------------

_WORKER = {}


def productmd_modules():
    import productmd
    import productmd.common, productmd.composeinfo, productmd.compose, productmd.discinfo, productmd.extra_files
    import productmd.images, productmd.modules, productmd.rpms, productmd.treeinfo
    return [sys.modules[m] for m in sorted(sys.modules) if m == "productmd" or m.startswith("productmd.")]


def module_state_guard(mods):
    """every path starts from the state of a freshly imported library: module-level dicts / lists / sets of productmd (caches,
    registries) are snapshotted once and restored in place at the start of each path.  What a call leaves behind there is thus
    visible to later calls of the same path (a history the harness plays), never to another path or job."""
    import copy
    saved = []
    seen = set()

    def consider(name, val):
        if name.startswith("__") or type(val) not in (dict, list, set) or id(val) in seen:
            return
        seen.add(id(val))
        try:
            saved.append((val, copy.deepcopy(val)))
        except Exception:
            pass
    for mod in mods:
        for name, val in list(vars(mod).items()):
            consider(name, val)
            if isinstance(val, type) and getattr(val, "__module__", "").startswith("productmd"):
                for cname, cval in list(vars(val).items()):          # class-level containers are shared state as well
                    consider(cname, cval)

    def restore():
        for live, snap in saved:
            try:
                if live == snap:
                    continue
            except Exception:          # symbolic leftovers of the previous path cannot be compared natively
                pass
            fresh = copy.deepcopy(snap)
            if isinstance(live, dict):
                live.clear()
                live.update(fresh)
            elif isinstance(live, list):
                live[:] = fresh
            else:
                live.clear()
                live.update(fresh)
    return restore


def run_job(spec):
    """executed in a worker process"""
    t0 = time.time()
    prop, modname, job, tier, seed = spec["prop"], spec["module"], spec["job"], spec["tier"], spec["seed"]
    try:
        if REPO not in sys.path:
            sys.path.insert(0, REPO)
        if HARNESS_DIR not in sys.path:
            sys.path.insert(0, HARNESS_DIR)
        from . import interp as _interp, api, stubs
        from .values import StopExploration
        mod = importlib.import_module(modname)
        I = _interp.Interp([os.path.join(REPO, "productmd"), HARNESS_DIR], solver_timeout_ms=job.get("solver_timeout_ms", 120000))
        stubs.install(I)
        I.install_trampolines(productmd_modules())
        I.path_hooks.append(module_state_guard(productmd_modules()))
        # wall-clock budget per job (a changed tree must not be able to make a check run for ever): exceeded => the job is
        # reported as not exhausted (engine error, exit 2), never as success
        I.deadline = time.time() + float(job.get("budget_s") or os.environ.get("PSX_JOB_BUDGET_S") or (900 if tier == "quick" else 5400))
        # watchdog: z3 does not always honour its own timeout (some preprocessing of div/mod-heavy terms does not); past the job's
        # deadline a thread interrupts the solver context every few seconds, so that a query comes back `unknown` (-> inconclusive,
        # exit 2) instead of hanging the check
        import threading
        import z3 as _z3
        finished = threading.Event()

        def _watchdog(deadline=I.deadline + 60):
            while not finished.wait(5):
                if time.time() > deadline:
                    try:
                        _z3.main_ctx().interrupt()
                    except Exception:
                        pass
        threading.Thread(target=_watchdog, daemon=True).start()
        ctx = JobContext(prop, modname, job["harness"], job.get("params", {}), load_known(prop),
                         validate_every=job.get("validate_every", 25))
        ctx.I = I
        ctx.hashseeds = job.get("replay_hashseeds", 0)
        ctx.env_nondet = bool(job.get("env_nondet"))
        ctx.cross_left = job.get("cross_check", 2 if tier == "thorough" else 0)
        I.flush_hook = ctx.flush
        sym = api.Sym(I, ctx)
        ctx.sym = sym
        fn = getattr(mod, job["harness"])
        fn = getattr(fn, "__psx_orig__", fn)
        params = job.get("params", {})
        stopped = False
        try:
            I.explore(lambda: I.call(fn, [sym], dict(params)), on_path=ctx.on_path, max_paths=job.get("max_paths"))
        except StopExploration:
            stopped = True
        import shutil
        for d in ctx.scratch:
            shutil.rmtree(d, True)
        finished.set()
        res = ctx.result()
        if I.budget_exhausted:
            res["path_reasons"]["inconclusive: the job's wall-clock budget was exhausted before every path was explored"] = 1
        res["stopped_early"] = stopped
        res["wall_s"] = round(time.time() - t0, 2)
        return res
    except BaseException as e:
        try:
            finished.set()
        except NameError:
            pass
        return {"harness": job.get("harness"), "params": job.get("params", {}), "crash": "%s: %s\n%s" % (type(e).__name__, e, traceback.format_exc()[-3000:]),
                "wall_s": round(time.time() - t0, 2)}


def engine_selftests(meta, tier, seed):
    """differential validation of the engine's models, run inside the check (results go into the evidence)"""
    out = {}
    errors = []
    try:
        from . import selftest
        sys.path.insert(0, HARNESS_DIR)
        import C19
        pats = set(C19.collect_patterns())
        r = selftest.regex_selftest(pats, seed, per_pattern=400 if tier == "thorough" else 120)
        out["regex_vm_vs_re"] = r
        r2 = selftest.string_selftest(seed, rounds=230 if tier == "thorough" else 69)
        out["string_models_pinned"] = {k: v for k, v in r2.items() if k != "failures"}
        out["string_models_pinned"]["failures"] = len(r2["failures"])
        for f in r2["failures"][:5]:
            errors.append("engine self-test: string model disagrees with CPython: %s" % json.dumps(f, default=str))
        if tier == "thorough":
            # the repository's own test-suite with every productmd function body executed by the interpreter
            env = dict(os.environ)
            env["PYTHONPATH"] = REPO
            env["PSX_REPO"] = REPO
            p = subprocess.run([sys.executable, os.path.join(HERE, "psx", "tests_under_interp.py")], capture_output=True, text=True, env=env, timeout=900)
            tail = [l for l in (p.stdout or "").strip().splitlines() if l.strip()][-2:]
            out["repository_tests_under_interpreter"] = {"exit": p.returncode, "summary": tail}
            if p.returncode != 0:
                errors.append("engine self-test: the repository's test-suite does not pass under the interpreter: %s" % tail)
        if meta.get("pinned_models"):
            # split / normpath of ropes with symbolic parts, through the real runner, on pinned inputs (harness/selftest_models.py)
            import selftest_models
            sj = selftest_models.jobs(tier, seed)
            if tier != "thorough":
                sj = sj[seed % 3::3]
            bad = []
            for j in sj:
                r = run_job({"prop": "selftest", "module": "selftest_models", "job": j, "tier": tier, "seed": seed})
                if "crash" in r or r["violations"] or r["spurious"] or r["path_reasons"] or not r["paths"].get("ok"):
                    bad.append(j["params"])
            out["path_models_pinned"] = {"cases": len(sj), "failures": len(bad)}
            for b in bad[:5]:
                errors.append("engine self-test: split/normpath model disagrees with CPython on %s" % json.dumps(b))
        if meta.get("fp_lemma"):
            r3 = selftest.lemma_int_float_roundtrip()
            out["lemma_int_float_roundtrip"] = r3
            if not (r3["holds_up_to_2**53"] and r3["fails_at_2**53+1"]):
                errors.append("engine self-test: lemma int_float_roundtrip not established: %s" % r3)
            r4 = selftest.int_to_double_selftest(seed)
            out["int_to_double_rounding"] = r4
            if r4["disagreements"]:
                errors.append("engine self-test: the rounding model of float(int) above 2**53 disagrees with CPython: %s" % r4["examples"])
    except AssertionError as e:
        errors.append("engine self-test: regex encoding disagrees with re: %s" % (e,))
    except Exception as e:
        errors.append("engine self-test failed to run: %s: %s" % (type(e).__name__, e))
    return out, errors


def run_check(prop, modname, tier, seed, jobs, meta, nproc=None, wall_budget_s=None):
    """run all jobs, write evidence, print verdict lines, return the exit code"""
    t0 = time.time()
    st, st_errors = engine_selftests(meta, tier, seed)
    results, extra = run_pool(prop, modname, tier, seed, jobs, nproc)
    extra["engine_selftests"] = st
    return finish(prop, tier, seed, results, meta, time.time() - t0, extra_coverage=extra, extra_errors=st_errors)


def run_pool(prop, modname, tier, seed, jobs, nproc=None):
    """run the jobs in worker processes; returns (results, extra coverage entries)"""
    nproc = nproc or int(os.environ.get("PSX_WORKERS", "16"))
    specs = [{"prop": prop, "module": modname, "job": j, "tier": tier, "seed": seed} for j in jobs]
    results = []
    if nproc == 1 or len(specs) == 1:
        for s in specs:
            results.append(run_job(s))
    else:
        ctx = multiprocessing.get_context("fork")
        # after a violation that replayed against the real code the verdict is settled (exit 1): the remaining jobs get a
        # grace period and are then terminated, so that a broken tree is reported in minutes rather than after every
        # hard query ran into its timeout.  On a tree without violations nothing is ever cut short.
        grace = float(os.environ.get("PSX_GRACE_S", "60" if tier == "quick" else "300"))
        deadline = None
        with ctx.Pool(min(nproc, len(specs)), maxtasksperchild=8) as pool:
            it = pool.imap_unordered(run_job, specs, chunksize=1)
            while len(results) < len(specs):
                try:
                    r = it.next(timeout=5)
                except multiprocessing.TimeoutError:
                    if deadline is not None and time.time() > deadline:
                        pool.terminate()
                        break
                    continue
                except StopIteration:
                    break
                results.append(r)
                if deadline is None and r.get("violations"):
                    deadline = time.time() + grace
    extra = {}
    if len(results) < len(specs):
        extra["jobs_terminated_after_confirmed_violation"] = len(specs) - len(results)
    return results, extra


def finish(prop, tier, seed, results, meta, wall, extra_coverage=None, extra_errors=None, extra_violations=None):
    violations = []
    known_hits = {}
    errors = list(extra_errors or [])
    tot = collections.Counter()
    covers = collections.Counter()
    functions = {}
    on_demand = set()
    patterns = set()
    bounds = {}
    samples = []
    witnesses = []
    coverless = []          # jobs that reached none of their harness's cover labels (every path ended before the first one)
    cuts = collections.Counter()
    paths = collections.Counter()
    per_harness = collections.defaultdict(lambda: collections.Counter())
    max_query = 0.0
    degraded = []
    cross = []
    for r in results:
        hname = r.get("harness")
        if "crash" in r:
            errors.append("job %s %s crashed: %s" % (hname, r.get("params"), r["crash"]))
            continue
        for k in ("obligations", "trivial", "discharged", "distinct", "distinct_obligations", "validated", "solver_calls", "steps", "unknown", "fresh_solver_calls"):
            tot[k] += r[k]
            per_harness[hname][k] += r[k]
        tot["solver_time"] += r["solver_time"]
        max_query = max(max_query, r["max_query"])
        for k, v in r["paths"].items():
            paths[k] += v
            per_harness[hname]["paths_" + k] += v
        for k, v in r["covers"].items():
            covers["%s:%s" % (hname, k)] += v
        want_labels = (meta.get("expected_covers") or {}).get(hname) or []
        if want_labels and not any(r["covers"].values()):
            coverless.append({"harness": hname, "params": r["params"]})
        functions.update(r["functions"])
        on_demand.update(r.get("on_demand", []))
        patterns.update(r["patterns"])
        for k, v in r["bounds"].items():
            bounds.setdefault("%s/%s" % (hname, k), v)
        for k, v in r.get("notes", {}).items():
            bounds.setdefault("%s/note:%s" % (hname, k), v)
        for k, v in r["cuts"].items():
            cuts[k] += v
        if len(samples) < 12:
            samples.extend(r["samples"][:2])
        if r.get("witness") is not None and len(witnesses) < 6:
            witnesses.append({"harness": hname, "params": r["params"], "inputs": r["witness"]})
        for v in r["violations"]:
            violations.append(dict(v, harness=hname, params=r["params"]))
        for kid, kv in r["known_hits"].items():
            known_hits.setdefault(kid, dict(kv, harness=hname))
        for s in r["spurious"]:
            errors.append("spurious model (does not replay) in %s %s check %r: %s" % (hname, r["params"], s["label"], json.dumps(s["native"], default=str)[:600]))
        for s in r["inconclusive"]:
            errors.append("inconclusive obligation in %s %s: %s" % (hname, r["params"], s))
        cross.extend(r.get("cross_done", []))
        for s in r.get("cross_disagree", []):
            errors.append("solver disagreement in %s %s: %s" % (hname, r["params"], s))
        for s in r["validation_mismatch"]:
            errors.append("engine/native mismatch in %s %s: %s inputs=%s" % (hname, r["params"], s["reason"], json.dumps(s["inputs"], default=str)[:400]))
        for k, v in r["path_reasons"].items():
            if k.startswith("cut: "):
                continue
            if k.startswith("unsupported"):
                degraded.append("%s %s: %s (x%d)" % (hname, r["params"], k, v))
            errors.append("%s %s: %d path(s) ended as %s" % (hname, r["params"], v, k))
    # vacuity: every cover label a harness declares must have been reached in some job
    for h, labels in (meta.get("expected_covers") or {}).items():
        for lab in labels:
            if covers.get("%s:%s" % (h, lab), 0) == 0 and not violations:
                errors.append("vacuous: cover point %s:%s was never reached" % (h, lab))
    for v in (extra_violations or []):
        violations.append(v)

    exhaustive = not errors and not violations
    coverage = {
        "explanation": meta.get("explanation", "bounded symbolic execution of the real source (psx), every obligation decided by z3"),
        "evaluations": int(tot["solver_calls"]),
        "distinct_nontrivial": int(tot["distinct"]),
        "rule": "evaluations = solver queries (path-feasibility conditions, obligation negations, slice-canonicalisation and bound lemmas); "
                "non-trivial = the formula does not fold to a constant before it reaches the solver; distinct = different (formula hash, number of "
                "path constraints), counted per job and summed. An obligation = (path condition AND NOT check) for one labelled check on one path; "
                "obligations whose check folds to a constant on its path were decided by the feasibility queries that selected the path",
        "obligations": int(tot["obligations"]),
        "distinct_nontrivial_obligations": int(tot["distinct_obligations"]),
        "discharged": int(tot["discharged"]),
        "trivially_true": int(tot["trivial"]),
        "paths": dict(paths),
        "per_harness": {k: dict(v) for k, v in per_harness.items()},
        "jobs": len(results),
        "solver": "z3 %s (python API), incremental, push/pop aligned with the depth-first search" % _z3_version(),
        "solver_time_s": round(tot["solver_time"], 2),
        "max_query_s": round(max_query, 3),
        "solver_unknown_first_attempt": int(tot["unknown"]),
        "queries_redecided_by_fresh_nonincremental_solver": int(tot["fresh_solver_calls"]),
        "interpreted_ast_steps": int(tot["steps"]),
        "functions_encoded": sorted(functions),
        "stdlib_functions_interpreted_on_demand": sorted(on_demand),
        "source_hashes": _hashes(set(functions.values())),
        "patterns_encoded": sorted(patterns),
        "bounds": bounds,
        "cuts_outside_claim": dict(cuts),
        "cover_labels_reached": dict(covers),
        "jobs_reaching_no_cover_label": coverless[:40],
        "paths_validated_natively": int(tot["validated"]),
        "cross_checked": {"obligation_batches": len(cross), "answers": dict(collections.Counter("%s/%s/%s" % (c.get("ours"), c.get("z3-4.8.12"), c.get("cvc5-1.0")) for c in cross)),
                          "note": "ours / z3 4.8.12 binary / cvc5 1.0 binary on the SMT-LIB2 export; thorough tier only"},
        "samples": samples + [{"witness_model": w} for w in witnesses],
        "exhaustive": exhaustive,
        "known_findings_reproduced": known_hits,
        "engine_errors": errors[:40],
        "degraded": degraded[:20],
    }
    if extra_coverage:
        for k, v in extra_coverage.items():
            if k in ("evaluations", "distinct_nontrivial", "obligations", "discharged") and isinstance(v, int):
                coverage[k] = coverage.get(k, 0) + v
            elif k == "samples":
                coverage["samples"] = v + coverage["samples"]
            elif isinstance(v, dict) and isinstance(coverage.get(k), dict):
                coverage[k].update(v)
            elif isinstance(v, list) and isinstance(coverage.get(k), list):
                coverage[k] = coverage[k] + v
            else:
                coverage[k] = v
    if not coverage["samples"]:
        coverage["samples"] = [{"note": "no obligation was generated"}]
    coverage["evaluations"] = max(1, coverage["evaluations"])
    coverage["distinct_nontrivial"] = max(coverage["distinct_nontrivial"], 0)
    ev = {
        "property_id": prop, "tier": tier, "seed": seed, "level": meta.get("level", "other"),
        "coverage": coverage,
        "assumptions": meta.get("assumptions", []) + ["cut: " + k for k in sorted(cuts)],
        "wall_s": round(wall, 2),
        "violations": len(violations),
    }
    evdir = os.environ.get("PSX_EVIDENCE_DIR") or os.path.join(HERE, "evidence")          # redirected only when a scratch tree is evaluated (dev/seedtest.py)
    os.makedirs(evdir, exist_ok=True)
    with open(os.path.join(evdir, "%s.json" % prop), "w") as f:
        json.dump(ev, f, indent=1, sort_keys=True, default=str)
    for kid, kv in sorted(known_hits.items()):
        print("KNOWN-FINDING: property=%s %s [%s] replay=%s" % (prop, kv.get("what", kid), kid, kv.get("replay")))
    print("%s %s: %d jobs, %d paths (%s), %d obligations (%d discharged, %d trivially true), %d solver queries, "
          "solver %.1fs, wall %.1fs" % (prop, tier, len(results), sum(paths.values()),
                                         ", ".join("%s=%d" % kv for kv in sorted(paths.items())), tot["obligations"],
                                         tot["discharged"], tot["trivial"], coverage["evaluations"], tot["solver_time"], wall))
    if violations:
        for v in violations[:5]:
            print("VIOLATION property=%s replay=%s" % (prop, v["replay"]))
            print("  harness=%s params=%s check=%r inputs=%s" % (v.get("harness"), json.dumps(v.get("params"), default=str), v.get("label"), json.dumps(v.get("inputs"), ensure_ascii=True, default=str)[:600]))
        return 1
    if errors:
        for e in errors[:15]:
            print("ENGINE-ERROR: %s" % e[:1200])
        return 2
    return 0


def _z3_version():
    try:
        import z3
        return z3.get_version_string()
    except Exception:
        return "?"


def _hashes(files):
    out = {}
    for f in sorted(files):
        try:
            with open(f, "rb") as fh:
                out[f] = hashlib.sha1(fh.read()).hexdigest()[:16]
        except Exception:
            pass
    return out
