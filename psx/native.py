"""Native implementation of the harness API: runs a harness on concrete inputs against the real,
un-instrumented library (no solver, no interpreter).  Used for counterexample replay and for the
differential validation of explored paths.  Imports nothing but the standard library."""
import json
import sys


class AssumeFailed(Exception):
    pass


def parse_class(spec):
    """['a-z', '0-9', '.', ...] -> list of (lo, hi) code point ranges"""
    out = []
    for a in spec:
        if isinstance(a, (tuple, list)):
            out.append((int(a[0]), int(a[1])))
        elif len(a) == 3 and a[1] == "-":
            out.append((ord(a[0]), ord(a[2])))
        elif len(a) == 1:
            out.append((ord(a), ord(a)))
        else:
            raise ValueError("bad character class element %r" % (a,))
    return out


NAMED_CLASSES = {
    "ascii": [(0, 127)],
    "printable": [(32, 126)],
    "digits": [(48, 57)],
    "lower": [(97, 122)],
    "alnum": [(48, 57), (65, 90), (97, 122)],
    "word": [(48, 57), (65, 90), (97, 122), (95, 95)],
    "hexlower": [(48, 57), (97, 102)],
    "bmp": [(0, 0xD7FF), (0xE000, 0xFFFF)],
}


def class_ranges(spec):
    if spec is None:
        return None
    if isinstance(spec, str):
        return NAMED_CLASSES[spec]
    return parse_class(spec)


def in_class(ch, ranges):
    c = ord(ch)
    return any(lo <= c <= hi for lo, hi in ranges)


class NativeSym(object):
    """concrete stand-in for the symbolic harness API"""
    symbolic = False

    def __init__(self, inputs):
        self.inputs = inputs
        self.failed = []
        self.covers = []
        self.checks = []
        self.diverged = []
        self.notes = {}
        self.bad_input = []

    # -- inputs -----------------------------------------------------------------------------
    def _get(self, name, default):
        if name not in self.inputs:
            self.diverged.append(name)
            return default
        return self.inputs[name]

    def str(self, name, maxlen, minlen=0, alphabet=None):
        v = self._get(name, "x" * minlen)
        r = class_ranges(alphabet)
        if not (minlen <= len(v) <= maxlen) or (r is not None and not all(in_class(ch, r) for ch in v)):
            self.bad_input.append(name)
        return v

    def int(self, name, lo=None, hi=None):
        v = self._get(name, lo if lo is not None else 0)
        if (lo is not None and v < lo) or (hi is not None and v > hi):
            self.bad_input.append(name)
        return v

    def bool(self, name):
        return bool(self._get(name, False))

    def choice(self, name, options):
        i = self._get(name, 0)
        options = list(options)
        if not 0 <= i < len(options):
            self.bad_input.append(name)
            i = 0
        return options[i]

    def fork(self, name):
        return bool(self._get(name, False))

    def one_of(self, name, options):
        v = self._get(name, list(options)[0])
        if v not in list(options):
            self.bad_input.append(name)
        return v

    # -- verdicts ---------------------------------------------------------------------------
    def assume(self, cond):
        if not cond:
            raise AssumeFailed()

    def check(self, label, cond):
        self.checks.append(label)
        if not cond:
            self.failed.append(label)

    def cover(self, label):
        self.covers.append(label)

    def note(self, key, value):
        self.notes[key] = value

    def option(self, name, value):
        pass

    # -- boolean / string helpers -------------------------------------------------------------
    def and_(self, *a):
        return all(a)

    def or_(self, *a):
        return any(a)

    def not_(self, a):
        return not a

    def implies(self, a, b):
        return (not a) or bool(b)

    def iff(self, a, b):
        return bool(a) == bool(b)

    def ite(self, c, a, b):
        return a if c else b

    def chars_in(self, s, spec):
        r = class_ranges(spec)
        return all(in_class(ch, r) for ch in s)

    def no_char(self, s, chars):
        return not any(ch in chars for ch in s)

    def char_at_in(self, s, idx, spec):
        r = class_ranges(spec)
        if idx < 0:
            idx += len(s)
        return 0 <= idx < len(s) and in_class(s[idx], r)

    def has_digit_run(self, s, k):
        return any(all("0" <= ch <= "9" for ch in s[i:i + k]) for i in range(len(s) - k + 1))

    # ---- cost accounting (C19): traced lines + Python calls + C calls made from productmd frames
    def _trace_on(self):
        import sys, os
        if getattr(self, "_tracing", False):
            return
        self._tracing = True
        self._cost = 0
        self._limit = None
        root = os.path.join(os.environ.get("PSX_REPO", "/repo"), "productmd") + os.sep
        me = self

        def hit():
            me._cost += 1
            if me._limit is not None and me._cost > me._limit:
                lim, me._limit = me._limit, None
                from psx.values import CostLimitExceeded
                raise CostLimitExceeded("more than %d steps" % lim)

        def local(frame, event, arg):
            if event == "line":
                hit()
            return local

        def tracer(frame, event, arg):
            if event == "call" and frame.f_code.co_filename.startswith(root):
                hit()
                return local
            return None

        def profiler(frame, event, arg):
            if event == "c_call" and frame.f_code.co_filename.startswith(root):
                hit()
        sys.settrace(tracer)
        sys.setprofile(profiler)

    def note_max(self, key, value):
        pass

    def steps(self):
        self._trace_on()
        return self._cost

    def approximate_numerics(self):
        import time
        self._cpu0 = time.process_time()

    def charged(self):
        """CPU time spent since approximate_numerics(), in units of 50 microseconds, less an allowance of 100 units (5 ms) for
        the tracer and the ordinary work - what the interpreter's charges are a lower bound of"""
        import time
        return max(0, int((time.process_time() - getattr(self, "_cpu0", time.process_time())) / 50e-6) - 100)

    def step_limit(self, extra):
        self._trace_on()
        self._limit = None if extra is None else self._cost + extra

    def _fs_materialise(self, prefix):
        import os
        import shutil
        entries, root = self._fs_entries, self._fs_root
        bits = {}
        for i, rel in enumerate(sorted(entries)):
            bits[rel] = bool(self._get("%s%d" % (prefix, i), False))
        for rel in sorted(entries):
            parent = os.path.dirname(rel)
            if rel and parent in bits and bits[rel] and not bits[parent]:
                self.bad_input.append("fs:" + rel)
            if rel and parent == "" and "" in bits and bits[rel] and not bits[""]:
                self.bad_input.append("fs:" + rel)
        shutil.rmtree(root, True)
        for rel in sorted(entries):
            if not bits[rel]:
                continue
            p = os.path.join(root, rel) if rel else root
            if entries[rel] is None:
                os.makedirs(p, exist_ok=True)
            else:
                os.makedirs(os.path.dirname(p), exist_ok=True)
                with open(p, "w") as f:
                    f.write(entries[rel])
        return bits

    def fs_change(self):
        self._fs_epoch += 1
        return self._fs_materialise("fse%d_" % self._fs_epoch)

    def symbolic_fs(self, entries, root_name="root", remote=False):
        """materialise the model's layout as a real directory tree (served over HTTP on the loopback interface when remote)"""
        import os
        top = self.scratch_dir()
        root = os.path.join(top, root_name)
        self._fs_entries, self._fs_root, self._fs_epoch = dict(entries), root, 0
        if remote:
            import functools
            import http.server
            import threading

            class Quiet(http.server.SimpleHTTPRequestHandler):
                def log_message(self, *a):
                    pass
            srv = http.server.ThreadingHTTPServer(("127.0.0.1", 0), functools.partial(Quiet, directory=top))
            threading.Thread(target=srv.serve_forever, daemon=True).start()
            self._servers = getattr(self, "_servers", []) + [srv]
            bits = self._fs_materialise("fs")
            return "http://127.0.0.1:%d/%s" % (srv.server_address[1], root_name), bits
        bits = {}
        for i, rel in enumerate(sorted(entries)):
            bits[rel] = bool(self._get("fs%d" % i, False))
        for rel in sorted(entries):
            parent = os.path.dirname(rel)
            if rel and parent in bits and bits[rel] and not bits[parent]:
                self.bad_input.append("fs:" + rel)
            if rel and parent == "" and "" in bits and bits[rel] and not bits[""]:
                self.bad_input.append("fs:" + rel)
        for rel in sorted(entries):
            if not bits[rel]:
                continue
            p = os.path.join(root, rel) if rel else root
            if entries[rel] is None:
                os.makedirs(p, exist_ok=True)
            else:
                os.makedirs(os.path.dirname(p), exist_ok=True)
                with open(p, "w") as f:
                    f.write(entries[rel])
        return root, bits

    def symbolic_file(self, name, max_size):
        import os
        n = int(self._get(name, 0))
        if not 0 <= n <= max_size:
            self.bad_input.append(name)
        path = os.path.join(self.scratch_dir(), name)
        os.makedirs(os.path.dirname(path), exist_ok=True)
        self._files = getattr(self, "_files", {})
        self._files[path] = [name, n, 0]
        self._write_file(path)
        return path, n

    def _write_file(self, path):
        import os
        name, n, version = self._files[path]
        block = bytes((b + 7 * version) % 256 for b in range(256)) * 4096          # other bytes for every version
        with open(path, "wb") as f:
            left = n
            while left > 0:
                f.write(block[:min(left, len(block))])
                left -= len(block)
        mt = int(self._get("%s.mtime%d" % (name, version), 1000000000 + version))
        os.utime(path, (mt, mt))

    def rewrite_file(self, path):
        self._files[path][2] += 1
        self._write_file(path)

    def scratch_dir(self):
        import tempfile
        import atexit
        import shutil
        d = tempfile.mkdtemp(prefix="psx-scratch-")
        atexit.register(shutil.rmtree, d, True)
        self._scratch = getattr(self, "_scratch", []) + [d]
        return d

    def same(self, a, b):
        """structural equality of plain data (texts, numbers, containers)"""
        return a == b and type(a) is type(b) if isinstance(a, (bool, int)) and isinstance(b, (bool, int)) else a == b

    def is_none(self, v):
        return v is None

    def text_eq(self, a, b):
        return a == b

    def exc_type(self, e):
        return type(e)


def run_native(fn, inputs, params):
    """returns a result dict"""
    sym = NativeSym(inputs)
    res = {"assume_failed": False, "exception": None}
    try:
        fn(sym, **params)
    except AssumeFailed:
        res["assume_failed"] = True
    except Exception as e:
        import traceback
        res["exception"] = {"type": type(e).__name__, "message": str(e)[:500], "traceback": traceback.format_exc()[-2000:]}
    finally:
        if getattr(sym, "_tracing", False):
            sys.settrace(None)
            sys.setprofile(None)
        for srv in getattr(sym, "_servers", []):
            srv.shutdown()
            srv.server_close()
    import shutil
    for d in getattr(sym, "_scratch", []):
        shutil.rmtree(d, True)
    res["failed"] = sym.failed
    res["covers"] = sym.covers
    res["checks"] = sym.checks
    res["diverged"] = sym.diverged
    res["bad_input"] = sym.bad_input
    return res


def load_harness(module_name, fn_name, harness_dir):
    if harness_dir not in sys.path:
        sys.path.insert(0, harness_dir)
    import importlib
    mod = importlib.import_module(module_name)
    return getattr(mod, fn_name)


def replay_redos(rep):
    """time the real `re` engine on prefix + pump^n + suffix; reproduced = measured exponential growth"""
    import re
    import time
    import importlib
    pat = None
    if rep.get("ref"):
        try:
            o = importlib.import_module(rep["ref"][0])
            for k in rep["ref"][1:]:
                o = o[k] if isinstance(k, int) else getattr(o, k)
            if isinstance(o, re.Pattern) and o.pattern == rep["pattern"]:
                pat = o
        except Exception:
            pat = None
    if pat is None:
        pat = re.compile(rep["pattern"])
    prefix, pump = rep["prefix"], rep["pump"]
    suffix = None
    for cand in ("!", "\x00", "\n!", " ", "\u00e9!"):
        if pat.match(prefix + pump * 3 + cand) is None and pat.match(prefix + pump * 4 + cand) is None:
            suffix = cand
            break
    res = {"reproduced": False, "label": "redos", "failed": [], "exception": None, "assume_failed": False, "bad_input": [], "diverged": []}
    if suffix is None:
        res["error"] = "no failing suffix found"
        return res
    times = []
    n = 4
    while n <= 200 and len(prefix) + n * len(pump) <= 400:
        s = prefix + pump * n + suffix
        t = time.perf_counter()
        pat.match(s)
        dt = time.perf_counter() - t
        times.append((n, dt, len(s)))
        if dt > 1.0:
            break
        n += 1
    res["n"], res["seconds"], res["subject_len"] = times[-1][0], round(times[-1][1], 3), times[-1][2]
    res["suffix"] = suffix
    # exponential: above one second on a short subject, and the last steps each at least ~1.5x the previous one
    if times[-1][1] > 1.0 and len(times) >= 4:
        ratios = [times[i][1] / max(times[i - 1][1], 1e-9) for i in range(len(times) - 3, len(times))]
        res["ratios"] = [round(r, 2) for r in ratios]
        res["reproduced"] = all(r >= 1.4 for r in ratios) and times[-1][2] <= 400
    return res


def main(argv):
    """python native.py <replay.json> : re-run the recorded counterexample natively and report"""
    path = argv[1]
    with open(path) as f:
        rep = json.load(f)
    for p in rep.get("sys_path", []):
        if p not in sys.path:
            sys.path.insert(0, p)
    if rep.get("kind") == "redos":
        res = replay_redos(rep)
        json.dump(res, sys.stdout, indent=1, sort_keys=True, default=str)
        sys.stdout.write("\n")
        return 0 if res["reproduced"] else 3
    fn = load_harness(rep["module"], rep["harness"], rep["harness_dir"])
    res = run_native(fn, rep["inputs"], rep.get("params", {}))
    label = rep.get("label")
    if label == "<exception>":
        reproduced = res["exception"] is not None and not res["assume_failed"]
    else:
        reproduced = label in res["failed"]
    if res["bad_input"] or res["assume_failed"]:
        reproduced = False
    res["reproduced"] = reproduced
    res["label"] = label
    json.dump(res, sys.stdout, indent=1, sort_keys=True, default=str)
    sys.stdout.write("\n")
    return 0 if reproduced else 3


if __name__ == "__main__":
    sys.exit(main(sys.argv))
