"""Symbolic leaf values and engine control signals."""
import z3
from .sstr import SymStr, SymEscape, Atom
from .terms import is_true, is_false, simp


class Control(BaseException):
    """engine signals: never catchable by interpreted code"""


class PathInfeasible(Control):
    pass


class PathCut(Control):
    """path abandoned by a stated cut (outside the claim)"""
    def __init__(self, reason):
        Control.__init__(self, reason)
        self.reason = reason


class Inconclusive(Control):
    def __init__(self, reason):
        Control.__init__(self, reason)
        self.reason = reason


class UnsupportedConstruct(Control):
    def __init__(self, reason):
        Control.__init__(self, reason)
        self.reason = reason


class BoundExceeded(Control):
    def __init__(self, reason):
        Control.__init__(self, reason)
        self.reason = reason


class EngineBug(Control):
    def __init__(self, reason):
        Control.__init__(self, reason)
        self.reason = reason


class StopExploration(Control):
    pass


class _Return(Control):
    def __init__(self, v):
        self.v = v


class _Break(Control):
    pass


class _Continue(Control):
    pass


def _trap(self, *a, **k):
    raise SymEscape("%s escaped into native code" % type(self).__name__)


class SymBool(object):
    __slots__ = ("t",)

    def __init__(self, t):
        self.t = t
    __bool__ = __hash__ = __eq__ = __ne__ = __int__ = __index__ = __str__ = __and__ = __or__ = __format__ = _trap

    def __repr__(self):
        return "<SymBool>"


class SymInt(object):
    __slots__ = ("t",)

    def __init__(self, t):
        self.t = t
    __bool__ = __hash__ = __eq__ = __ne__ = __lt__ = __le__ = __gt__ = __ge__ = __int__ = __index__ = __float__ = _trap
    __str__ = __add__ = __radd__ = __sub__ = __rsub__ = __mul__ = __rmul__ = __neg__ = __format__ = __mod__ = _trap
    __floordiv__ = __truediv__ = __rmod__ = _trap

    def __repr__(self):
        return "<SymInt>"


class SymFloat(object):
    """a float known to be exactly the integer `t` (|t| <= 2**53, see lemma int_float_roundtrip)"""
    __slots__ = ("t",)

    def __init__(self, t):
        self.t = t
    __bool__ = __hash__ = __eq__ = __ne__ = __lt__ = __le__ = __gt__ = __ge__ = __int__ = __float__ = _trap
    __str__ = __add__ = __radd__ = __sub__ = __mul__ = __format__ = _trap

    def __repr__(self):
        return "<SymFloat>"


SYM = (SymBool, SymInt, SymStr, SymFloat)


def is_sym(v):
    return isinstance(v, SYM)


def mkbool(t):
    t = t if isinstance(t, bool) else t
    if isinstance(t, bool):
        return t
    if is_true(t):
        return True
    if is_false(t):
        return False
    return SymBool(t)


def mkint(t):
    if isinstance(t, int):
        return t
    if z3.is_int_value(t):
        return t.as_long()
    return SymInt(t)


def bterm(v):
    """Bool term of a bool / SymBool"""
    if isinstance(v, SymBool):
        return v.t
    if isinstance(v, bool):
        return v
    raise TypeError("not a boolean value: %r" % (v,))


def iterm(v):
    if isinstance(v, SymInt):
        return v.t
    if isinstance(v, bool):
        return int(v)
    if isinstance(v, int):
        return v
    if isinstance(v, SymBool):
        return z3.If(v.t, 1, 0)
    raise TypeError("not an integer value: %r" % (v,))


def pytype(v):
    """the Python type a symbolic value stands for"""
    if isinstance(v, SymStr):
        return str
    if isinstance(v, SymInt):
        return int
    if isinstance(v, SymBool):
        return bool
    if isinstance(v, SymFloat):
        return float
    return type(v)


def mark(e):
    """tag an exception as raised by the program under analysis (as opposed to an engine failure)"""
    try:
        e._psx_program = True
    except Exception:
        pass
    return e


def is_program_exc(e):
    return getattr(e, "_psx_program", False)


class CostLimitExceeded(Exception):
    """the code under analysis executed more steps than the harness allows for this input (C19): raised as a program
    exception both by the interpreter (interpreted statements + calls + comprehension iterations) and by the native
    replay (traced lines + Python calls + C calls inside productmd)"""
