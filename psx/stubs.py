"""Environment models: text files, JSON, INI, file system, hashing (each lists its contract)."""
from . import models
from .models import func_model, method_model, engine_type


def install(I):
    pass
