"""Environment models: text files, JSON, INI, file system, hashing.  Each stub states its contract.

JSON   json.dump / dumps walk the object exactly like the stdlib encoder decides (dict / list / tuple /
       str / int / bool / None / float leaves, TypeError for anything else, keys coerced or refused) and
       produce a DocText: the ordered skeleton plus the *normalised formatting arguments of the call*
       (indent, separators, sort_keys resolved the way CPython resolves them).  Two DocTexts are equal
       iff formatting and ordered skeleton are equal - which is byte equality of the real output for
       JSON values (RFC 8259 round trip of str/int/bool/None).  json.load / loads of a DocText return
       a deep copy as plain dicts / lists.  Concrete text goes through the real json module.
"""
import io
import json
import os

import z3

from . import models, sstr
from .models import func_model, method_model, engine_type, contains_sym, FUNC_MODELS
from .sstr import SymStr, mk
from .terms import And
from .values import SymBool, SymInt, SymFloat, SYM, mkbool, bterm, pytype


def install(I):
    pass


# ---------------------------------------------------------------------------------------------------

@engine_type
class DocText(object):
    """text of a serialised document that contains symbolic leaves"""

    def __init__(self, kind, doc, fmt):
        self.kind = kind
        self.doc = doc
        self.fmt = fmt

    def psx_symbolic(self):
        return True

    def psx_eq(self, other):
        from .interp import current
        I = current()
        if isinstance(other, DocText):
            if self.kind != other.kind or self.fmt != other.fmt:
                return False
            return ordered_eq(I, self.doc, other.doc)
        if isinstance(other, (str, SymStr)):
            I.unsupported("comparison of a symbolic document with plain text")
        return False

    def psx_truth(self):
        return True

    def __repr__(self):
        return "<DocText %s>" % self.kind


def ordered_eq(I, a, b):
    """structural equality that also compares the order of dict items (= byte equality of the rendering)"""
    if isinstance(a, dict) and isinstance(b, dict):
        if list(a.keys()) != list(b.keys()):
            return False
        parts = [ordered_eq(I, a[k], b[k]) for k in a]
    elif isinstance(a, list) and isinstance(b, list):
        if len(a) != len(b):
            return False
        parts = [ordered_eq(I, x, y) for x, y in zip(a, b)]
    else:
        if isinstance(a, (dict, list)) or isinstance(b, (dict, list)):
            return False
        # JSON distinguishes true/1 and "1"/1
        ta, tb = pytype(a), pytype(b)
        if (ta is bool) != (tb is bool) or (issubclass(ta, str) != issubclass(tb, str)) or (a is None) != (b is None):
            return False
        if (ta is float) != (tb is float):
            return False
        parts = [I.eq(a, b)]
    terms = []
    for p in parts:
        if p is False:
            return False
        if p is True:
            continue
        terms.append(bterm(p))
    return mkbool(And(*terms))


@engine_type
class SymIO(object):
    """in-memory text file (stands in for io.StringIO): a list of written chunks"""

    def __init__(self, initial=None):
        self.chunks = []
        if initial:
            self.chunks.append(initial)
        self.pos_at_start = True
        self.closed = False

    def psx_symbolic(self):
        return any(not isinstance(c, str) for c in self.chunks)

    def write(self, s):
        from .interp import current
        I = current()
        if not isinstance(s, (str, SymStr, DocText)):
            I.raise_(TypeError("string argument expected, got '%s'" % pytype(s).__name__))
        self.chunks.append(s)
        self.pos_at_start = False
        return None

    def seek(self, pos, whence=0):
        from .interp import current
        if pos != 0 or whence != 0:
            current().unsupported("seek to a position other than the start")
        self.pos_at_start = True
        return 0

    def seekable(self):
        return True

    def readable(self):
        return True

    def writable(self):
        return True

    def content(self):
        from .interp import current
        I = current()
        if not self.chunks:
            return ""
        if all(isinstance(c, str) for c in self.chunks):
            return "".join(self.chunks)
        if len(self.chunks) == 1:
            return self.chunks[0]
        if all(isinstance(c, (str, SymStr)) for c in self.chunks):
            return mk(self.chunks)
        I.unsupported("text file holding a structured document mixed with other text")

    def read(self, n=-1):
        from .interp import current
        if n not in (-1, None):
            current().unsupported("partial read of an in-memory text file")
        if not self.pos_at_start:
            return ""
        self.pos_at_start = False
        return self.content()

    def getvalue(self):
        return self.content()

    def readlines(self):
        from .interp import current
        I = current()
        c = self.read()
        if isinstance(c, str):
            return io.StringIO(c).readlines()
        if isinstance(c, LinesText):
            return list(c.lines)
        if isinstance(c, SymStr):
            parts = models._split_impl(I, c, "\n", -1, False)
            lines = [mk([p, "\n"]) for p in parts[:-1]]
            last = parts[-1]
            if I.truth(last):
                lines.append(last)
            return lines
        I.unsupported("readlines of a symbolic text")

    def close(self):
        self.closed = True

    def flush(self):
        pass

    def __enter__(self):
        return self

    def __exit__(self, *a):
        self.close()
        return False


@engine_type
class LinesText(object):
    """text made of whole lines (for the line-based .discinfo format): list of str/SymStr, each ending in newline
    except possibly the last"""

    def __init__(self, lines):
        self.lines = lines

    def psx_symbolic(self):
        return True

    def psx_eq(self, other):
        from .interp import current
        I = current()
        if isinstance(other, LinesText):
            return I.eq(self.lines, other.lines)
        I.unsupported("comparison of line text with plain text")


@func_model(io.StringIO)
def _stringio(I, args, kwargs):
    return SymIO(args[0] if args else None)


# ---------------------------------------------------------------------------------------------------
# JSON

def _fmt_of(I, kwargs):
    kw = dict(kwargs)
    indent = kw.pop("indent", None)
    seps = kw.pop("separators", None)
    sort_keys = kw.pop("sort_keys", False)
    ensure_ascii = kw.pop("ensure_ascii", True)
    skipkeys = kw.pop("skipkeys", False)
    allow_nan = kw.pop("allow_nan", True)
    kw.pop("check_circular", None)
    default = kw.pop("default", None)
    cls = kw.pop("cls", None)
    if kw:
        I.raise_(TypeError("JSONEncoder.__init__() got an unexpected keyword argument '%s'" % list(kw)[0]))
    if default is not None or cls is not None or skipkeys:
        I.unsupported("json encoder customisation (default/cls/skipkeys)")
    if contains_sym([indent, seps, sort_keys, ensure_ascii]):
        I.unsupported("symbolic JSON formatting arguments")
    if isinstance(indent, int) and not isinstance(indent, bool):
        indent_s = " " * indent if indent > 0 else ""
    elif isinstance(indent, str) or indent is None:
        indent_s = indent
    else:
        I.raise_(TypeError("bad indent"))
    if seps is None:
        item_sep, key_sep = (", ", ": ") if indent is None else (",", ": ")
    else:
        item_sep, key_sep = seps
    return {"indent": indent_s, "item_sep": item_sep, "key_sep": key_sep, "ensure_ascii": bool(ensure_ascii)}, bool(sort_keys), bool(allow_nan)


def to_skeleton(I, obj, sort_keys, allow_nan=True):
    if obj is None or isinstance(obj, (bool, SymBool, SymInt, SymStr, str)):
        return obj
    if isinstance(obj, int):
        return int(obj) if not isinstance(obj, bool) else obj
    if isinstance(obj, float):
        if obj != obj or obj in (float("inf"), float("-inf")):
            if not allow_nan:
                I.raise_(ValueError("Out of range float values are not JSON compliant"))
        return obj
    if isinstance(obj, SymFloat):
        I.unsupported("symbolic float in a JSON document")
    if isinstance(obj, (list, tuple)):
        return [to_skeleton(I, x, sort_keys, allow_nan) for x in obj]
    if isinstance(obj, dict):
        items = []
        for k, v in obj.items():
            if isinstance(k, models.SymKey):
                I.unsupported("JSON object with a symbolic key")
            if isinstance(k, str):
                kk = k
            elif isinstance(k, bool):
                kk = "true" if k else "false"
            elif k is None:
                kk = "null"
            elif isinstance(k, int):
                kk = str(k)
            elif isinstance(k, float):
                kk = repr(k)
            else:
                I.raise_(TypeError("keys must be str, int, float, bool or None, not %s" % type(k).__name__))
            items.append((k, kk, v))
        if sort_keys:
            try:
                items = I.native(sorted, items, key=lambda it: it[0])
            except TypeError as e:
                raise
        out = {}
        for k, kk, v in items:
            out[kk] = to_skeleton(I, v, sort_keys, allow_nan)
        return out
    I.raise_(TypeError("Object of type %s is not JSON serializable" % pytype(obj).__name__))


def from_skeleton(x):
    if isinstance(x, dict):
        return dict((k, from_skeleton(v)) for k, v in x.items())
    if isinstance(x, list):
        return [from_skeleton(v) for v in x]
    return x


def _dumps(I, obj, kwargs):
    fmt, sort_keys, allow_nan = _fmt_of(I, kwargs)
    if not contains_sym(obj, depth=64):
        return I.native(json.dumps, obj, **kwargs)
    skel = to_skeleton(I, obj, sort_keys, allow_nan)
    return DocText("json", skel, fmt)


@func_model(json.dumps)
def _json_dumps(I, args, kwargs):
    if len(args) != 1:
        I.raise_(TypeError("dumps() takes 1 positional argument"))
    return _dumps(I, args[0], kwargs)


@func_model(json.dump)
def _json_dump(I, args, kwargs):
    if len(args) != 2:
        I.raise_(TypeError("dump() takes 2 positional arguments"))
    obj, fp = args
    text = _dumps(I, obj, kwargs)
    w = I.get_attr(fp, "write")
    if isinstance(text, DocText) and isinstance(fp, io.IOBase):
        # a real file cannot hold symbolic content; what matters to the checks is that *something* was written
        text = "<document with symbolic content>"
    I.call(w, [text], {})
    return None


@method_model(io.TextIOWrapper, "write")
def _real_text_write(I, fp, args, kwargs):
    """a real text file cannot hold symbolic content: a placeholder is written instead (what the checks observe of a real
    destination is whether - and when - something was written, never symbolic bytes)"""
    if len(args) == 1 and isinstance(args[0], (SymStr, DocText)):
        return I.native(fp.write, "<text with symbolic content>")
    return NotImplemented


def _loads(I, s, kwargs):
    if isinstance(s, DocText):
        if s.kind != "json":
            I.raise_(json.JSONDecodeError("Expecting value", "<ini document>", 0))
        if kwargs:
            I.unsupported("json.load keyword arguments on a symbolic document")
        return from_skeleton(s.doc)
    if isinstance(s, SymStr):
        I.unsupported("json.loads of free-form symbolic text")
    if isinstance(s, LinesText):
        I.raise_(json.JSONDecodeError("Expecting value", "<lines>", 0))
    return I.native(json.loads, s, **kwargs)


@func_model(json.loads)
def _json_loads(I, args, kwargs):
    return _loads(I, args[0], kwargs)


@func_model(json.load)
def _json_load(I, args, kwargs):
    fp = args[0]
    r = I.call(I.get_attr(fp, "read"), [], {})
    return _loads(I, r, kwargs)


# ---------------------------------------------------------------------------------------------------
# files

@func_model(open)
def _open(I, args, kwargs):
    if contains_sym(args) or contains_sym(kwargs):
        I.unsupported("open() with a symbolic path")
    fs = I.options.get("fs")
    if fs is not None and args and fs.covers(args[0]):
        return fs.open(I, *args, **kwargs)
    if args and "symfiles" in I.options:
        f = open_symfile(I, args[0], args[1] if len(args) > 1 else kwargs.get("mode", "r"))
        if f is not None:
            return f
    return I.native(open, *args, **kwargs)


# ---------------------------------------------------------------------------------------------------
# symbolic file system (C20)

@engine_type
class SymFS(object):
    """A finite universe of candidate paths below a fake root.  Every path has an existence bit (a Bool term);
    a path can only exist if its parent directory exists.  Files hold concrete text.  os.path.exists / os.listdir /
    open on paths below the root are answered from here; listdir returns the existing children in every possible
    order (pure n-way choices).  Contract: POSIX semantics of exists/listdir/open for reading."""

    def __init__(self, I, root, entries, bits):
        self.root = root
        self.entries = {}         # normalised path -> {"dir": bool, "content": str|None, "exists": term, "rel": relative path}
        self.opens = []
        for rel, content in entries.items():
            p = os.path.normpath(os.path.join(root, rel)) if rel else os.path.normpath(root)
            self.entries[p] = {"dir": content is None, "content": content, "exists": bits[rel], "rel": rel}

    def term(self, e):
        return e["exists"]

    def new_epoch(self, bits):
        """the stored files changed: from now on existence is given by another set of bits"""
        for e in self.entries.values():
            e["exists"] = bits[e["rel"]]

    def psx_symbolic(self):
        return False

    def covers(self, path):
        return isinstance(path, str) and (path == self.root or path.startswith(self.root + "/") or path.rstrip("/") == self.root)

    def exists_term(self, path):
        p = os.path.normpath(path)
        e = self.entries.get(p)
        if e is None:
            return False
        if path.endswith("/") and not e["dir"]:
            return False
        return e["exists"]

    def exists(self, I, path):
        return mkbool(self.exists_term(path))

    def isdir(self, I, path):
        p = os.path.normpath(path)
        e = self.entries.get(p)
        if e is None or not e["dir"]:
            return False
        return mkbool(e["exists"])

    def listdir(self, I, path):
        p = os.path.normpath(path)
        e = self.entries.get(p)
        if e is None or not I.decide(e["exists"]):
            I.raise_(FileNotFoundError(2, "No such file or directory", path))
        if not e["dir"]:
            I.raise_(NotADirectoryError(20, "Not a directory", path))
        kids = sorted(k for k in self.entries if os.path.dirname(k) == p and k != p)
        present = [os.path.basename(k) for k in kids if I.decide(self.entries[k]["exists"])]
        # any order
        out = []
        rest = present
        while len(rest) > 1:
            j = I.choose(len(rest))
            out.append(rest[j])
            rest = rest[:j] + rest[j + 1:]
        return out + rest

    def open(self, I, path, mode="r", *a, **k):
        if mode not in ("r", "rt"):
            I.unsupported("symbolic file system opened for writing")
        p = os.path.normpath(path)
        e = self.entries.get(p)
        if e is None or not I.decide(e["exists"]):
            I.raise_(FileNotFoundError(2, "No such file or directory", path))
        if e["dir"]:
            I.raise_(IsADirectoryError(21, "Is a directory", path))
        self.opens.append(p)
        if not isinstance(e["content"], str):
            return SymIO(e["content"])          # a document with symbolic leaves
        return io.StringIO(e["content"])


# ---- remote locations: urlopen over the same symbolic file system (root given as a URL)
import urllib.request as _urlreq
import urllib.error as _urlerr


@func_model(_urlreq.urlopen)
def _urlopen_model(I, args, kwargs):
    """contract: a GET of a URL below the symbolic root answers 200 with the file's content (a listing for a directory) when the
    path exists and HTTP 404 otherwise; the returned object supports read()/close() and iteration like a text stream"""
    url = args[0] if args else kwargs.get("url")
    if contains_sym(url):
        I.unsupported("urlopen with a symbolic URL")
    fs = I.options.get("fs")
    if fs is None or not isinstance(url, str) or not fs.covers(url):
        return NotImplemented
    p = os.path.normpath(url)
    e = fs.entries.get(p)
    if e is None or not I.decide(fs.term(e)):
        I.raise_(_urlerr.HTTPError(url, 404, "File not found", None, None))
    fs.opens.append(p)
    if not e["dir"] and not isinstance(e["content"], str):
        return SymIO(e["content"])          # a document with symbolic leaves
    return io.StringIO("<directory listing>" if e["dir"] else e["content"])


def _fs_for(I, path):
    fs = I.options.get("fs")
    if fs is not None and fs.covers(path):
        return fs
    return None


@func_model(os.path.exists)
def _exists(I, args, kwargs):
    fs = _fs_for(I, args[0])
    if fs is not None:
        return fs.exists(I, args[0])
    return NotImplemented


@func_model(os.path.isdir)
def _isdir(I, args, kwargs):
    fs = _fs_for(I, args[0])
    if fs is not None:
        return fs.isdir(I, args[0])
    return NotImplemented


@func_model(os.listdir)
def _listdir(I, args, kwargs):
    fs = _fs_for(I, args[0]) if args else None
    if fs is not None:
        return fs.listdir(I, args[0])
    return NotImplemented


# ---------------------------------------------------------------------------------------------------
# INI: configparser.RawConfigParser / ConfigParser accessors on the real parser object's _sections
#
# Models of the documented behaviour of the accessor methods productmd uses, operating on the real parser's
# own dictionaries (productmd's SortedDict, iterated through the interpreter, decides every order) and calling
# productmd's optionxform override.  Interpolation (BasicInterpolation) is modelled for values without '%('
# (stated cut): set refuses a lone '%', get turns '%%' into '%'.  write() produces a DocText("ini") holding the
# ordered sections/options; read_file() of such a text rebuilds the sections *provided every value is
# representable in the file syntax* (single line, no leading/trailing blank) - the property's own restriction,
# imposed as a stated cut.  Concrete text goes through the real parser.
import configparser as _cp
import re as _re

from .models import FUNC_MODELS, iterate, to_str, filter_chars, SymMethod, STR_METHODS
from .sstr import Atom, as_atom
from .terms import Or, Not, Eq, Lt, Ne, in_ranges
from .values import mark


def _parser_model(*fns):
    def deco(m):
        for f in fns:
            FUNC_MODELS[id(f)] = (f, m)
        return m
    return deco


def _xform(I, parser, option):
    return I.call(I.get_attr(parser, "optionxform"), [option], {})


def _section_dict(I, parser, section, err=True):
    if contains_sym(section):
        I.unsupported("symbolic INI section name")
    if section == parser.default_section:
        return parser._defaults
    d = parser._sections.get(section)
    if d is None and err:
        I.raise_(_cp.NoSectionError(section))
    return d


def _has_percent(v):
    """the value may contain '%' as far as its declared alphabet tells"""
    if isinstance(v, str):
        return "%" in v
    for seg in v.segs:
        if isinstance(seg, str):
            if "%" in seg:
                return True
        elif seg.alpha is None or any(lo <= 37 <= hi for lo, hi in seg.alpha):
            return True
    return False


def _pairs_mask(a):
    """for the flat atom: (first[k], second[k]) - position k is the first / second character of a '%%' pair,
    pairing left to right"""
    first = []
    second = []
    prev_first = False
    for k in range(a.m):
        is_p = And(Lt(k, a.n), Eq(a.c[k], 37))
        nxt = And(Lt(k + 1, a.n), Eq(a.c[k + 1], 37)) if k + 1 < a.m else False
        f = And(Not(prev_first), is_p, nxt)
        first.append(f)
        second.append(prev_first)
        prev_first = f
    return first, second


def _interp_kind(I, parser):
    t = type(parser._interpolation)
    if t is _cp.BasicInterpolation:
        return "basic"
    if t is _cp.Interpolation:
        return "none"             # interpolation=None: values pass through unchanged
    I.unsupported("INI interpolation %s" % t.__name__)


def interpolation_before_set(I, value, kind="basic"):
    """BasicInterpolation.before_set: a '%' must belong to '%%' or '%(name)s'"""
    if kind == "none":
        return value
    if not isinstance(value, SymStr) or not _has_percent(value):
        if isinstance(value, str):
            tmp = _re.sub(r"%\(([^)]+)\)s", "", value.replace("%%", ""))
            if "%" in tmp:
                I.raise_(ValueError("invalid interpolation syntax in %r at position %d" % (value, tmp.find("%"))))
        return value
    a = value.flat()
    I.cut(Not(a.contains("%(")), "INI values containing '%(' (interpolation references) are not modelled")
    first, second = _pairs_mask(a)
    lone = Or(*[And(Lt(k, a.n), Eq(a.c[k], 37), Not(first[k]), Not(second[k])) for k in range(a.m)])
    if I.decide(lone):
        I.raise_(ValueError("invalid interpolation syntax in value"))
    return value


def interpolation_before_get(I, value, kind="basic"):
    """BasicInterpolation.before_get: '%%' -> '%' (lone '%' is a syntax error)"""
    if value is None or kind == "none":
        return value
    if not isinstance(value, SymStr):
        if isinstance(value, str) and "%" in value:
            # the real interpolation on concrete text without references
            if "%(" in value:
                I.unsupported("INI interpolation reference in concrete text")
            out = []
            i = 0
            while i < len(value):
                if value[i] == "%":
                    if value[i + 1:i + 2] == "%":
                        out.append("%")
                        i += 2
                        continue
                    I.raise_(_cp.InterpolationSyntaxError("option", "section", "'%%' must be followed by '%%' or '(', found: %r" % value[i:]))
                out.append(value[i])
                i += 1
            return "".join(out)
        return value
    if not _has_percent(value):
        return value
    a = value.flat()
    I.cut(Not(a.contains("%(")), "INI values containing '%(' (interpolation references) are not modelled")
    first, second = _pairs_mask(a)
    lone = Or(*[And(Lt(k, a.n), Eq(a.c[k], 37), Not(first[k]), Not(second[k])) for k in range(a.m)])
    if I.decide(lone):
        I.raise_(_cp.InterpolationSyntaxError("option", "section", "'%' must be followed by '%' or '('"))
    anyp = Or(*first)
    if not I.decide(anyp):
        return value
    keep = [And(Lt(k, a.n), Not(second[k])) for k in range(a.m)]
    return mk([filter_chars(a, keep)])


@_parser_model(_cp.ConfigParser.set, _cp.RawConfigParser.set)
def _ini_set(I, args, kwargs):
    parser, section, option = args[0], args[1], args[2]
    value = args[3] if len(args) > 3 else kwargs.get("value")
    if isinstance(option, models.SymKey):
        option = option.s
    if isinstance(parser, _cp.ConfigParser):
        if not issubclass(pytype(option), str):
            I.raise_(TypeError("option keys must be strings"))
        if not (parser._allow_no_value and value is None) and not issubclass(pytype(value), str):
            I.raise_(TypeError("option values must be strings"))
    if value is not None:
        value = interpolation_before_set(I, value, _interp_kind(I, parser))
    if not section or section == parser.default_section:
        d = parser._defaults
    else:
        d = parser._sections.get(section)
        if d is None:
            I.raise_(_cp.NoSectionError(section))
    I.setitem(d, _xform(I, parser, option), value)
    return None


def _ini_raw_get(I, parser, section, option):
    d = _section_dict(I, parser, section, err=False)
    if d is None:
        if section != parser.default_section:
            I.raise_(_cp.NoSectionError(section))
        d = parser._defaults
    option = _xform(I, parser, option)
    if option in d:
        return d[option]
    if option in parser._defaults:
        return parser._defaults[option]
    I.raise_(_cp.NoOptionError(option, section))


@_parser_model(_cp.RawConfigParser.get)
def _ini_get(I, args, kwargs):
    parser, section, option = args[0], args[1], args[2]
    if kwargs.get("vars") is not None:
        I.unsupported("ConfigParser.get(vars=...)")
    fallback = kwargs.get("fallback", _cp._UNSET)
    try:
        v = _ini_raw_get(I, parser, section, option)
    except (_cp.NoSectionError, _cp.NoOptionError):
        if fallback is _cp._UNSET:
            raise
        return fallback
    if kwargs.get("raw") or v is None:
        return v
    return interpolation_before_get(I, v, _interp_kind(I, parser))


@_parser_model(_cp.RawConfigParser.getint)
def _ini_getint(I, args, kwargs):
    v = _ini_get(I, args[:3], {})
    return I.call(int, [v], {})


@_parser_model(_cp.RawConfigParser.getfloat)
def _ini_getfloat(I, args, kwargs):
    v = _ini_get(I, args[:3], {})
    return I.call(float, [v], {})


@_parser_model(_cp.RawConfigParser.getboolean)
def _ini_getboolean(I, args, kwargs):
    v = _ini_get(I, args[:3], {})
    parser = args[0]
    if isinstance(v, SymStr):
        low = STR_METHODS["lower"](I, v, [], {})
        states = parser.BOOLEAN_STATES
        keys = sorted(states)
        conds = [models.bterm(I.eq(low, k)) for k in keys]
        j = I.choose_feasible(conds + [Not(Or(*conds))])
        if j == len(keys):
            I.raise_(ValueError("Not a boolean"))
        return states[keys[j]]
    if v.lower() not in parser.BOOLEAN_STATES:
        I.raise_(ValueError("Not a boolean: %s" % v))
    return parser.BOOLEAN_STATES[v.lower()]


@_parser_model(_cp.RawConfigParser.has_option)
def _ini_has_option(I, args, kwargs):
    parser, section, option = args[0], args[1], args[2]
    if not section or section == parser.default_section:
        return _xform(I, parser, option) in parser._defaults
    d = parser._sections.get(section)
    if d is None:
        return False
    option = _xform(I, parser, option)
    return option in d or option in parser._defaults


@_parser_model(_cp.RawConfigParser.has_section)
def _ini_has_section(I, args, kwargs):
    return args[1] in args[0]._sections


@_parser_model(_cp.RawConfigParser.sections)
def _ini_sections(I, args, kwargs):
    return list(I.call(I.get_attr(args[0]._sections, "keys"), [], {}))


@_parser_model(_cp.RawConfigParser.options)
def _ini_options(I, args, kwargs):
    parser, section = args[0], args[1]
    d = _section_dict(I, parser, section)
    out = list(iterate(I, d))
    for k in parser._defaults:
        if k not in out:
            out.append(k)
    return out


@_parser_model(_cp.RawConfigParser.items)
def _ini_items(I, args, kwargs):
    parser = args[0]
    if len(args) < 2:
        I.unsupported("ConfigParser.items() without a section")
    section = args[1]
    d = _section_dict(I, parser, section)
    keys = list(iterate(I, d))
    for k in parser._defaults:
        if k not in keys:
            keys.append(k)
    out = []
    for k in keys:
        v = d[k] if k in d else parser._defaults[k]
        if not kwargs.get("raw") and v is not None:
            v = interpolation_before_get(I, v, _interp_kind(I, parser))
        out.append((k, v))
    return out


@_parser_model(_cp.ConfigParser.add_section, _cp.RawConfigParser.add_section)
def _ini_add_section(I, args, kwargs):
    parser, section = args[0], args[1]
    if contains_sym(section):
        I.unsupported("symbolic INI section name")
    if isinstance(parser, _cp.ConfigParser):
        return I.native(_cp.ConfigParser.add_section, parser, section)
    return I.native(_cp.RawConfigParser.add_section, parser, section)


@engine_type
class IniDoc(object):
    """ordered sections and options of a written INI text"""

    def __init__(self, sections, space):
        self.sections = sections          # list of (name, [(key, value)])
        self.space = space


def _ini_doc_eq(I, a, b):
    if a.space != b.space or [s for s, _ in a.sections] != [s for s, _ in b.sections]:
        return False
    terms = []
    for (_, ia), (_, ib) in zip(a.sections, b.sections):
        if [k for k, _ in ia] != [k for k, _ in ib]:
            return False
        for (ka, va), (_, vb) in zip(ia, ib):
            e = I.eq(va, vb)
            if e is False:
                return False
            if e is not True:
                if os.environ.get("PSX_DEBUG"):
                    import sys
                    sys.stderr.write("[psx] ini eq non-trivial: %s %r %r\n" % (ka, va, vb))
                terms.append(models.bterm(e))
    return mkbool(And(*terms))


_orig_doc_eq = DocText.psx_eq


def _doc_eq(self, other):
    from .interp import current
    if isinstance(other, DocText) and self.kind == "ini" and other.kind == "ini":
        return _ini_doc_eq(current(), self.doc, other.doc)
    return _orig_doc_eq(self, other)


DocText.psx_eq = _doc_eq


@_parser_model(_cp.RawConfigParser.write)
def _ini_write(I, args, kwargs):
    parser, fp = args[0], args[1]
    space = args[2] if len(args) > 2 else kwargs.get("space_around_delimiters", True)
    sections = []
    if parser._defaults:
        sections.append((parser.default_section, [(k, v) for k, v in I.call(I.get_attr(parser._defaults, "items"), [], {})]))
    for name in iterate(I, parser._sections):
        items = list(I.call(I.get_attr(parser._sections[name], "items"), [], {}))
        sections.append((name, [(k, v) for k, v in items]))
    if not any(contains_sym(v) for _, items in sections for _, v in items):
        # fully concrete: the real writer
        out = io.StringIO()
        I.native(_cp.RawConfigParser.write, parser, out, space)
        I.call(I.get_attr(fp, "write"), [out.getvalue()], {})
        return None
    # RawConfigParser._write_section renders every value with str() (a parser whose set() let a non-text value through writes its str())
    sections = [(name, [(k, v if (v is None and parser._allow_no_value) or issubclass(pytype(v), str) else models.to_str(I, v)) for k, v in items])
                for name, items in sections]
    text = DocText("ini", IniDoc(sections, bool(space)), None)
    if isinstance(fp, io.IOBase):
        text = "<document with symbolic content>"
    I.call(I.get_attr(fp, "write"), [text], {})
    return None


def _representable(I, v):
    """the value survives 'key = value' + parsing: one line, no leading / trailing blank"""
    if v is None or isinstance(v, str):
        return True
    a = v.flat()
    sp = sstr.table("space")
    no_nl = a.char_pred_all(lambda c: And(Ne(c, 10), Ne(c, 13)))
    first_ok = Or(Eq(a.n, 0), Not(in_ranges(a.c[0], sp))) if a.m else True
    last_ok = Or(Eq(a.n, 0), Not(in_ranges(a.at(a.n - 1), sp))) if a.m else True
    return And(no_nl, first_ok, last_ok)


_PARSER_DEFAULTS = {"_delimiters": ("=", ":"), "_comment_prefixes": ("#", ";"), "_strict": True, "_allow_no_value": False,
                    "_empty_lines_in_values": True, "default_section": "DEFAULT"}


def _check_parser_configuration(I, parser):
    """the read model below is the documented behaviour of a parser constructed with the default syntax options
    (inline comment prefixes are modelled as well); any other configuration is reported, not guessed"""
    for k, want in _PARSER_DEFAULTS.items():
        got = getattr(parser, k, want)
        if (tuple(got) if isinstance(want, tuple) else got) != want:
            I.unsupported("INI parser configured with %s=%r (the read model covers %r only)" % (k.lstrip("_"), got, want))


def _cut_inline_comment(I, parser, key, v, space):
    """configparser._read: the line 'key = value' is cut at the first inline-comment prefix that stands at the start of
    the line or after a white-space character; what remains is stripped"""
    prefixes = tuple(getattr(parser, "_inline_comment_prefixes", None) or ())
    if not prefixes or v is None:
        return v
    if any(len(p) != 1 for p in prefixes) or not isinstance(key, str):
        I.unsupported("inline comment prefixes longer than one character / symbolic option names with inline comments")
    head = key + (" = " if space else "=")
    for i, ch in enumerate(head):
        if ch in prefixes and (i == 0 or head[i - 1].isspace()):
            I.unsupported("inline comment inside an option name %r" % (head,))
    if isinstance(v, str):
        for i, ch in enumerate(v):
            if ch in prefixes and ((i == 0 and space) or (i > 0 and v[i - 1].isspace())):
                return v[:i].strip()
        return v
    a = v.flat()
    sp = sstr.table("space")
    pr = [(ord(p), ord(p)) for p in prefixes]
    for i in range(a.m):
        before = (True if space else False) if i == 0 else in_ranges(a.c[i - 1], sp)
        if before is False:
            continue
        if I.decide(And(Lt(i, a.n), in_ranges(a.c[i], pr), before)):
            cut = I.getitem(v, slice(0, i))
            return I.call(I.get_attr(cut, "strip"), [], {})
    return v


@_parser_model(_cp.RawConfigParser.read_file)
def _ini_read_file(I, args, kwargs):
    parser, f = args[0], args[1]
    content = None
    if isinstance(f, SymIO):
        content = f.content() if f.pos_at_start else ""
    if isinstance(content, DocText):
        if content.kind != "ini":
            I.raise_(_cp.MissingSectionHeaderError("<json>", 1, "{"))
        f.pos_at_start = False
        doc = content.doc
        _check_parser_configuration(I, parser)
        for name, items in doc.sections:
            if name == parser.default_section:
                d = parser._defaults
            else:
                if name in parser._sections:
                    I.raise_(_cp.DuplicateSectionError(name))
                d = parser._dict()
                parser._sections[name] = d
                parser._proxies[name] = _cp.SectionProxy(parser, name)
            for k, v in items:
                I.cut(_representable(I, v), "INI values that are not representable in the file syntax (multi-line, leading/trailing blank)")
                if isinstance(v, str) and v != v.strip():
                    v = v.strip()
                if isinstance(k, str) and k.strip().startswith(tuple(parser._comment_prefixes or ())) and (parser._comment_prefixes or ()):
                    continue          # a full-line comment (the '; WARNING' lines of [general])
                v = _cut_inline_comment(I, parser, k, v, doc.space)
                kk = _xform(I, parser, k.rstrip())
                I.setitem(d, kk, v)
        return None
    if isinstance(content, SymStr):
        I.unsupported("parsing free-form symbolic INI text")
    if isinstance(f, SymIO):
        return I.native(_cp.RawConfigParser.read_file, parser, io.StringIO(content), *args[2:], **kwargs)
    return I.native(_cp.RawConfigParser.read_file, parser, f, *args[2:], **kwargs)


import collections as _collections
FUNC_MODELS[id(_collections.ChainMap)] = (_collections.ChainMap, lambda I, a, k: _collections.ChainMap(*a, **k))


@_parser_model(_cp.RawConfigParser.read_string)
def _ini_read_string(I, args, kwargs):
    parser, text = args[0], args[1]
    if isinstance(text, (DocText, SymStr)):
        f = SymIO(text)
        return _ini_read_file(I, [parser, f], {})
    return NotImplemented


# ---------------------------------------------------------------------------------------------------
# hashing a file of symbolic size (C16)
#
# The file is a byte string of symbolic length n whose content is not modelled.  read(k) returns the interval
# [pos, pos + min(k, n - pos)) as a token; hashlib objects record the intervals they are fed; the digest is
# H(name, bytes fed) with H uninterpreted.  Contract: update(a); update(b) == update(a + b); read(k) returns at
# most k bytes and b"" only at end of file; hexdigest() is lower-case hexadecimal.
import hashlib as _hashlib


@engine_type
class SymBytes(object):
    def __init__(self, fid, lo, hi):
        self.fid, self.lo, self.hi = fid, lo, hi

    def psx_symbolic(self):
        return True

    def psx_truth(self):
        return mkbool(self.hi > self.lo)

    def psx_eq(self, other):
        """compared with a bytes literal: equal to b"" iff empty; the (unmodelled) content equals no other given literal"""
        if isinstance(other, (bytes, bytearray)):
            if len(other) == 0:
                return mkbool(self.hi <= self.lo)
            from .interp import current
            current().unsupported("content of a symbolic file compared with a bytes literal")
        if isinstance(other, SymBytes):
            if other.fid == self.fid:
                return mkbool(z3.Or(z3.And(self.lo == other.lo, self.hi == other.hi), z3.And(self.hi <= self.lo, other.hi <= other.lo)))
            from .interp import current
            current().unsupported("contents of two symbolic files compared")
        return False

    def __len__(self):
        raise sstr.SymEscape("SymBytes escaped")


@engine_type
class SymFile(object):
    def __init__(self, fid, size):
        self.fid, self.size, self.pos = fid, size, 0
        self.closed = False

    def psx_symbolic(self):
        return True

    def read(self, k=-1):
        from .interp import current
        I = current()
        if isinstance(k, SYM):
            I.unsupported("read() with a symbolic size")
        rest = self.size - self.pos
        if k is None or k < 0:
            ln = rest
        else:
            ln = z3.If(rest < k, rest, k)
        b = SymBytes(self.fid, self.pos, self.pos + ln)
        self.pos = self.pos + ln
        return b

    def close(self):
        self.closed = True

    def __enter__(self):
        return self

    def __exit__(self, *a):
        self.close()
        return False


@engine_type
class DigestText(object):
    """hex digest of an uninterpreted hash over a sequence of intervals of a symbolic file"""

    def __init__(self, name, parts, case="lower"):
        self.name, self.parts, self.case = name, parts, case

    def psx_symbolic(self):
        return True

    def lower(self):
        return DigestText(self.name, self.parts, "lower")

    def upper(self):
        return DigestText(self.name, self.parts, "upper")

    def strip(self, *a):
        return self

    def psx_truth(self):
        return True

    def psx_eq(self, other):
        from .interp import current
        I = current()
        if not isinstance(other, DigestText):
            if isinstance(other, (str, SymStr)):
                I.unsupported("comparison of a symbolic digest with text")
            return False
        if self.name != other.name or self.case != other.case:
            return False
        a, b = self.parts, other.parts
        if len(a) == len(b) and all(x[0] == y[0] and x[1] is y[1] and x[2] is y[2] for x, y in zip(a, b)):
            return True
        if len(b) != 1 and len(a) == 1:
            a, b = b, a
        if len(b) != 1:
            I.unsupported("comparison of two multi-part symbolic digests")
        (fid, lo, hi) = b[0]
        # a's non-empty intervals, in order, tile [lo, hi)
        terms = []
        cur = lo
        for (f2, l2, h2) in a:
            if f2 != fid:
                return False
            empty = (h2 <= l2)
            terms.append(Or(empty, And(l2 == cur, h2 <= hi, h2 > l2)))
            cur = z3.If(empty, cur, h2)
        terms.append(cur == hi)
        return mkbool(And(*terms))


@engine_type
class SymHash(object):
    def __init__(self, name):
        self.name = name
        self.parts = []

    def psx_symbolic(self):
        return True

    def update(self, b):
        from .interp import current
        I = current()
        if isinstance(b, SymBytes):
            self.parts.append((b.fid, b.lo, b.hi))
            return None
        if isinstance(b, (bytes, bytearray)) and len(b) == 0:
            return None
        I.unsupported("hash update mixing symbolic and concrete bytes")

    def hexdigest(self):
        return DigestText(self.name, list(self.parts))

    def copy(self):
        h = SymHash(self.name)
        h.parts = list(self.parts)
        return h


@func_model(_hashlib.new)
def _hashlib_new(I, args, kwargs):
    name = args[0]
    if isinstance(name, SYM):
        name = models.concretize(I, name)
    if "symfiles" not in I.options:
        return NotImplemented
    if name not in _hashlib.algorithms_available:
        I.raise_(ValueError("unsupported hash type " + name))
    h = SymHash(name)
    data = args[1] if len(args) > 1 else kwargs.get("data")
    if data is not None:
        h.update(data)
    return h


def open_symfile(I, path, mode):
    files = I.options.get("symfiles") or {}
    if path in files:
        if mode != "rb":
            I.unsupported("symbolic file opened in mode %r" % mode)
        return SymFile((path, (I.options.get("symfile_versions") or {}).get(path, 0)), files[path])          # content identity = (path, version)
    return None


# os.path.normpath on ropes whose symbolic parts contain no separator
import posixpath as _posixpath


@func_model(os.path.normpath, _posixpath.normpath)
def _normpath(I, args, kwargs):
    p = args[0]
    if not isinstance(p, SymStr):
        return NotImplemented
    if all(isinstance(seg, str) or models._sep_free(seg, "/") for seg in p.segs):
        first = p.segs[0]
        slashes = 0
        if isinstance(first, str):
            slashes = len(first) - len(first.lstrip("/"))
        initial = 0 if slashes == 0 else (2 if slashes == 2 else 1)
    else:
        # any symbolic text: the number of leading slashes (0, 1, exactly 2, more) and the number of components fork
        if not I.truth(models._s_startswith(I, p, ["/"], {})):
            initial = 0
        elif I.truth(models._s_startswith(I, p, ["//"], {})) and not I.truth(models._s_startswith(I, p, ["///"], {})):
            initial = 2
        else:
            initial = 1
    comps = models._split_impl(I, p, "/", -1, False)
    new = []
    for c in comps:
        if isinstance(c, str):
            is_empty, is_dot, is_dotdot = c == "", c == ".", c == ".."
        else:
            is_empty = I.truth(I.eq(c, ""))
            is_dot = (not is_empty) and I.truth(I.eq(c, "."))
            is_dotdot = (not is_empty) and (not is_dot) and I.truth(I.eq(c, ".."))
        if is_empty or is_dot:
            continue
        if not is_dotdot or (not initial and not new) or (new and isinstance(new[-1], str) and new[-1] == ".."):
            new.append(c if not is_dotdot else "..")
        elif new:
            new.pop()
    out = []
    for i, c in enumerate(new):
        if i:
            out.append("/")
        out.append(c)
    res = mk(["/" * initial] + out)
    if isinstance(res, str) and res == "":
        return "."
    return res


@_parser_model(_cp.RawConfigParser.remove_option)
def _ini_remove_option(I, args, kwargs):
    parser, section, option = args[0], args[1], args[2]
    d = _section_dict(I, parser, section)
    option = _xform(I, parser, option)
    existed = option in d
    if existed:
        del d[option]
    return existed


@_parser_model(_cp.RawConfigParser.remove_section)
def _ini_remove_section(I, args, kwargs):
    parser, section = args[0], args[1]
    existed = section in parser._sections
    if existed:
        del parser._sections[section]
        del parser._proxies[section]
    return existed


# ---------------------------------------------------------------------------------------------------
# buffers for readinto()-style hashing loops, and stat() of symbolic files

@engine_type
class SymBufView(object):
    """a slice [lo, hi) of a concrete-size buffer whose content psx tracks as 'the bytes of file interval ...'"""

    def __init__(self, base, lo, hi):
        self.base, self.lo, self.hi = base, lo, hi

    def psx_symbolic(self):
        return True

    def psx_truth(self):
        return mkbool(self.hi > self.lo)


_BUF_WRITES = {}       # id(base buffer) -> (buffer offset, bytes written, file id, file position)


def _as_view(I, b):
    if isinstance(b, SymBufView):
        return b
    if isinstance(b, (memoryview, bytearray)):
        return SymBufView(b, 0, len(b))
    I.unsupported("buffer of type %s" % type(b).__name__)


def _symfile_readinto(self, b):
    from .interp import current
    I = current()
    v = _as_view(I, b)
    rest = self.size - self.pos
    want = v.hi - v.lo
    k = z3.If(rest < want, rest, want) if not (isinstance(rest, int) and isinstance(want, int)) else min(rest, want)
    k = z3.If(k < 0, 0, k) if not isinstance(k, int) else max(k, 0)
    _BUF_WRITES[id(v.base)] = (v.lo, k, self.fid, self.pos, v.base)
    self.pos = self.pos + k
    return models.mkint(k) if not isinstance(k, int) else k


def _symfile_fileno(self):
    from .interp import current
    I = current()
    fds = I.options.setdefault("symfds", {})
    fd = -4000 - len(fds)
    fds[fd] = self
    return fd


SymFile.readinto = _symfile_readinto
SymFile.fileno = _symfile_fileno
SymFile.tell = lambda self: models.mkint(self.pos) if not isinstance(self.pos, int) else self.pos

_orig_hash_update = SymHash.update


def _hash_update(self, b):
    from .interp import current
    I = current()
    if isinstance(b, (SymBufView, memoryview, bytearray)) and (isinstance(b, SymBufView) or id(b) in _BUF_WRITES):
        v = _as_view(I, b)
        w = _BUF_WRITES.get(id(v.base))
        if w is None:
            I.unsupported("hashing a buffer that was never filled from a symbolic file")
        wlo, k, fid, pos, _ = w
        same_start = models.simp(Eq(v.lo, wlo)) if not (isinstance(v.lo, int) and isinstance(wlo, int)) else (v.lo == wlo)
        if same_start is not True:
            if not I.decide(same_start):
                I.unsupported("hashing a buffer slice that does not start where the last read wrote")
        n = v.hi - v.lo
        fresh = z3.If(n < k, n, k) if not (isinstance(n, int) and isinstance(k, int)) else min(n, k)
        self.parts.append((fid, pos, pos + fresh))
        # bytes beyond what the last read wrote are stale buffer content: not bytes of the file at that position
        self.parts.append(("stale-buffer-content", 0, n - fresh))
        return None
    return _orig_hash_update(self, b)


SymHash.update = _hash_update


def _digest_eq(self, other):
    from .interp import current
    I = current()
    if not isinstance(other, DigestText):
        if isinstance(other, (str, SymStr)):
            I.unsupported("comparison of a symbolic digest with text")
        return False
    if self.name != other.name or self.case != other.case:
        return False
    a, b = self.parts, other.parts
    if len(a) == len(b) and all(x[0] == y[0] and x[1] is y[1] and x[2] is y[2] for x, y in zip(a, b)):
        return True
    if len(b) != 1 and len(a) == 1:
        a, b = b, a
    if len(b) != 1:
        I.unsupported("comparison of two multi-part symbolic digests")
    (fid, lo, hi) = b[0]
    terms = []
    cur = lo
    for (f2, l2, h2) in a:
        empty = (h2 <= l2)
        if f2 != fid:
            terms.append(empty)          # bytes that are not from this file must not be there at all
            continue
        terms.append(Or(empty, And(l2 == cur, h2 <= hi, h2 > l2)))
        cur = z3.If(empty, cur, h2) if not isinstance(empty, bool) else (cur if empty else h2)
    terms.append(cur == hi)
    return mkbool(And(*terms))


DigestText.psx_eq = _digest_eq


class _SymStat(object):
    def __init__(self, size, mtime=None):
        self.st_size = size
        if mtime is not None:
            self.st_mtime = mtime          # whole seconds (sub-second resolution is outside the model)


@func_model(os.fstat)
def _fstat(I, args, kwargs):
    f = (I.options.get("symfds") or {}).get(args[0])
    if f is not None:
        return _SymStat(models.mkint(f.size))
    return NotImplemented


@func_model(os.stat)
def _stat(I, args, kwargs):
    files = I.options.get("symfiles") or {}
    if args and isinstance(args[0], str) and args[0] in files:
        mt = (I.options.get("symfile_mtimes") or {}).get(args[0])
        return _SymStat(models.mkint(files[args[0]]), models.mkint(mt) if mt is not None else None)
    return NotImplemented


@func_model(os.path.getmtime)
def _getmtime(I, args, kwargs):
    mts = I.options.get("symfile_mtimes") or {}
    if args and isinstance(args[0], str) and args[0] in mts:
        return models.mkint(mts[args[0]])
    return NotImplemented


@func_model(os.path.getsize)
def _getsize(I, args, kwargs):
    files = I.options.get("symfiles") or {}
    if args and isinstance(args[0], str) and args[0] in files:
        return models.mkint(files[args[0]])
    return NotImplemented


@func_model(range)
def _range(I, args, kwargs):
    if any(isinstance(a, SYM) for a in args):
        # a symbolic bound with few possible values (e.g. a chunk count): one branch per value
        args = [models.concretize(I, a, limit=64) if isinstance(a, SYM) else a for a in args]
    return I.native(range, *args)
