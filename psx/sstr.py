"""Bounded symbolic strings.

Atom   : array of code point terms c[0..m) plus a length term n (0 <= n <= m); m is concrete.
SymStr : rope of segments (Python str literals and Atoms).  Ropes make +, %, join and
         format free; a rope is flattened into one Atom (ITE chains over the possible
         offsets) only when a character-level operation needs it.

All terms go through psx.terms, so concrete parts fold to Python values.
"""
import unicodedata
import z3
from .terms import (And, Or, Not, If, Eq, Ne, Lt, Le, Ge, Gt, Sum, Implies, in_ranges, is_true, is_false,
                    model_int)


class SymEscape(BaseException):
    """A symbolic value reached native code that tried to look inside it."""


MAXCP = 0x10FFFF
SURR = (0xD800, 0xDFFF)

_fresh = [0]


def fresh_name(prefix):
    _fresh[0] += 1
    return "%s!%d" % (prefix, _fresh[0])


# ---------------------------------------------------------------------------------------------
# character class tables (computed from the running interpreter's unicodedata, lazily)

_TABLES = {}


def _ranges_of(pred):
    r = []
    start = None
    for cp in range(0x110000):
        d = pred(cp)
        if d and start is None:
            start = cp
        elif not d and start is not None:
            r.append((start, cp - 1))
            start = None
    if start is not None:
        r.append((start, MAXCP))
    return r


def table(name):
    if name in _TABLES:
        return _TABLES[name]
    if name == "digit":       # \d for str patterns: Unicode category Nd
        cat = unicodedata.category
        r = _ranges_of(lambda cp: cat(chr(cp)) == "Nd")
    elif name == "space":     # \s : str.isspace
        r = _ranges_of(lambda cp: chr(cp).isspace())
    elif name == "word":      # \w : alnum or underscore
        r = _ranges_of(lambda cp: chr(cp).isalnum() or cp == 95)
    elif name == "lower_fixed":   # code points that str.lower() leaves unchanged (single char, no context rules)
        r = _ranges_of(lambda cp: chr(cp).lower() == chr(cp))
    elif name == "int_space":  # characters int()/float() strip
        r = _ranges_of(lambda cp: chr(cp).isspace())
    else:
        raise KeyError(name)
    _TABLES[name] = r
    return r


def digit_blocks():
    """[(lo, hi)] of Nd; each block is checked to be 'zero..nine' so digit value = cp - lo"""
    if "digit_blocks" in _TABLES:
        return _TABLES["digit_blocks"]
    out = []
    for lo, hi in table("digit"):
        cp = lo
        while cp <= hi:
            assert unicodedata.digit(chr(cp)) == 0 and cp + 9 <= hi and unicodedata.digit(chr(cp + 9)) == 9, hex(cp)
            out.append((cp, cp + 9))
            cp += 10
    _TABLES["digit_blocks"] = out
    return out


def digit_value(c):
    """decimal value of a code point known to be in Nd"""
    if isinstance(c, int):
        return unicodedata.digit(chr(c))
    r = c - 48
    for lo, hi in digit_blocks():
        if lo == 48:
            continue
        r = If(And(c >= lo, c <= hi), c - lo, r)
    return r


# ---------------------------------------------------------------------------------------------

class Atom(object):
    __slots__ = ("c", "n", "m", "int_of", "alpha", "name", "_shift", "_memo", "origin", "view", "canon", "int_neg")

    def __init__(self, c, n, int_of=None, alpha=None, name=None):
        self.c = list(c)
        self.m = len(self.c)
        self.n = n
        self.int_of = int_of      # ('digits'|'sign', SymInt term) when this atom renders an integer
        self.alpha = alpha        # optional list of code point ranges every char (k < n) is known to lie in
        self.name = name
        self._shift = {}
        self._memo = {}
        self.origin = None        # flat atoms: [(segment, offset term)] of the rope they flatten
        self.view = None          # slices: (base atom with origin, start term, end term)
        self.canon = None         # slices: provably equal sub-rope of the base's rope (False: none found)
        self.int_neg = None       # digits of -t: the original (negative) term t

    @staticmethod
    def lit(s):
        return Atom([ord(x) for x in s], len(s))

    def is_conc(self):
        return isinstance(self.n, int) and all(isinstance(x, int) for x in self.c[:self.n])

    def conc(self):
        return "".join(chr(x) for x in self.c[:self.n])

    def domain_constraints(self, allow_surrogates=False):
        out = []
        if not isinstance(self.n, int):
            out.append(z3.And(self.n >= 0, self.n <= self.m))
        for x in self.c:
            if not isinstance(x, int):
                out.append(z3.And(x >= 0, x <= MAXCP))
                if not allow_surrogates:
                    out.append(z3.Or(x < SURR[0], x > SURR[1]))
        return out

    # -- element access ------------------------------------------------------------------
    def at(self, idx):
        """char at (possibly symbolic) index; 0 when out of range"""
        if isinstance(idx, int):
            return self.c[idx] if 0 <= idx < self.m else 0
        r = 0
        for k in range(self.m - 1, -1, -1):
            r = If(Eq(idx, k), self.c[k], r)
        return r

    def shifted(self, st, width=None):
        """[at(st + k) for k in range(width)] with shared offset tests"""
        width = self.m if width is None else width
        if isinstance(st, int):
            return [self.c[st + k] if 0 <= st + k < self.m else 0 for k in range(width)]
        key = (st.get_id(), width)
        if key in self._shift:
            return self._shift[key]
        conds = [Eq(st, j) for j in range(self.m)]
        out = []
        for k in range(width):
            r = 0
            for j in range(self.m - 1 - k, -1, -1):
                if j + k < self.m:
                    r = If(conds[j], self.c[j + k], r)
            out.append(r)
        self._shift[key] = out
        return out

    def slice(self, st, en, maxlen=None):
        """s[st:en] for already clamped 0 <= st <= en <= n"""
        if isinstance(st, int) and isinstance(en, int):
            r = Atom(self.c[st:en], en - st, alpha=self.alpha)
        elif isinstance(st, int):
            r = Atom(self.c[st:], en - st, alpha=self.alpha)
        else:
            width = self.m if maxlen is None else min(self.m, maxlen)
            r = Atom(self.shifted(st, width), en - st, alpha=self.alpha)
        if self.origin is not None:
            r.view = (self, st, en)
        elif self.view is not None:
            b, bst, _ = self.view
            r.view = (b, bst + st, bst + en)
        return r

    # -- predicates ----------------------------------------------------------------------
    def eq(self, o):
        if self is o:
            return True
        m = min(self.m, o.m)
        parts = [Eq(self.n, o.n)]
        if isinstance(self.n, int) and self.n > o.m or isinstance(o.n, int) and o.n > self.m:
            return False
        for k in range(m):
            a, b = self.c[k], o.c[k]
            if isinstance(a, int) and isinstance(b, int):
                if a != b:
                    parts.append(Le(self.n, k))
                continue
            if a is b:
                continue
            parts.append(Or(Le(self.n, k), Eq(a, b)))
        return And(*parts)

    def eq_lit(self, s):
        if len(s) > self.m:
            return False
        return And(Eq(self.n, len(s)), *[Eq(self.c[k], ord(s[k])) for k in range(len(s))])

    def lt(self, o):
        """lexicographic self < o"""
        m = max(self.m, o.m)
        # r_k = comparison of suffixes from k
        r = False
        for k in range(m, -1, -1):
            a_end = Le(self.n, k)
            b_end = Le(o.n, k)
            if k >= m:
                r = And(a_end, Not(b_end))
                continue
            a = self.c[k] if k < self.m else 0
            b = o.c[k] if k < o.m else 0
            r = If(a_end, Not(b_end), If(b_end, False, If(Lt(a, b), True, If(Eq(a, b), r, False))))
        return r

    def match_at(self, k, lit):
        """lit occurs at concrete position k (within the length)"""
        if k + len(lit) > self.m:
            return False
        return And(Le(k + len(lit), self.n), *[Eq(self.c[k + j], ord(lit[j])) for j in range(len(lit))])

    def startswith(self, lit):
        return self.match_at(0, lit)

    def startswith_atom(self, o):
        parts = [Le(o.n, self.n)]
        for k in range(o.m):
            if k < self.m:
                parts.append(Or(Le(o.n, k), Eq(self.c[k], o.c[k])))
            else:
                parts.append(Le(o.n, k))
        return And(*parts)

    def endswith(self, lit):
        L = len(lit)
        if L == 0:
            return True
        if L > self.m:
            return False
        if isinstance(self.n, int):
            return self.match_at(self.n - L, lit) if self.n >= L else False
        sh = self.shifted(self.n - L, L)
        return And(Le(L, self.n), *[Eq(sh[j], ord(lit[j])) for j in range(L)])

    def endswith_atom(self, o):
        """self ends with o (both symbolic)"""
        st = self.n - o.n
        sh = self.shifted(st, o.m) if not isinstance(st, int) else self.shifted(st, o.m)
        parts = [Le(o.n, self.n)]
        for k in range(o.m):
            parts.append(Or(Le(o.n, k), Eq(sh[k], o.c[k])))
        return And(*parts)

    def char_pred_all(self, pred):
        return And(*[Or(Le(self.n, k), pred(self.c[k])) for k in range(self.m)])

    def char_pred_any(self, pred):
        return Or(*[And(Lt(k, self.n), pred(self.c[k])) for k in range(self.m)])

    # -- searching -----------------------------------------------------------------------
    def occ(self, lit):
        """list of Bool terms: lit occurs at position k"""
        key = ("occ", lit)
        if key not in self._memo:
            self._memo[key] = [self.match_at(k, lit) for k in range(self.m)]
        return self._memo[key]

    def find(self, lit, start=0):
        occ = self.occ(lit)
        if lit == "":
            return start
        r = -1
        for k in range(self.m - 1, -1, -1):
            r = If(And(occ[k], Le(start, k)), k, r)
        return r

    def rfind(self, lit, before=None):
        """last k with lit at k and k + len(lit) <= before (default n)"""
        occ = self.occ(lit)
        r = -1
        for k in range(self.m):
            c = occ[k]
            if before is not None:
                c = And(c, Le(k + len(lit), before))
            r = If(c, k, r)
        return r

    def contains(self, lit):
        if lit == "":
            return True
        return Or(*self.occ(lit))

    def count_char(self, ch):
        return Sum([If(And(Lt(k, self.n), Eq(self.c[k], ord(ch))), 1, 0) for k in range(self.m)])

    def first_index(self, conds, default=-1):
        r = default
        for k in range(len(conds) - 1, -1, -1):
            r = If(conds[k], k, r)
        return r

    def last_index(self, conds, default=-1):
        r = default
        for k in range(len(conds)):
            r = If(conds[k], k, r)
        return r

    def model_str(self, m):
        ln = model_int(m, self.n)
        return "".join(chr(model_int(m, self.c[k])) for k in range(ln))


BOUND_ORACLE = [None]     # callable(term, hi) -> smallest B with term <= B on the current path (set by the interpreter)


def tight_bound(term, hi):
    if isinstance(term, int):
        return term
    f = BOUND_ORACLE[0]
    if f is None:
        return hi
    return f(term, hi)


def merge_ranges(rs):
    rs = sorted(rs)
    out = []
    for lo, hi in rs:
        if out and lo <= out[-1][1] + 1:
            out[-1] = (out[-1][0], max(out[-1][1], hi))
        else:
            out.append((lo, hi))
    return out


def restrict_ranges(ranges, alpha):
    """ranges intersected with the alphabet: (ranges', covers_all)"""
    if alpha is None:
        return ranges, False
    out = []
    for lo, hi in ranges:
        for alo, ahi in alpha:
            l, h = max(lo, alo), min(hi, ahi)
            if l <= h:
                out.append((l, h))
    out = merge_ranges(out)
    return out, out == merge_ranges(alpha)


def concat_atoms(a, b, cap=None):
    if isinstance(a.n, int):
        c = a.c[:a.n] + b.c
        return Atom(c if cap is None else c[:cap], a.n + b.n)
    m = a.m + b.m
    if cap is not None:
        m = min(m, cap)
    conds = [Eq(a.n, la) for la in range(a.m + 1)]
    out = []
    for k in range(m):
        alt = 0
        for la in range(min(a.m, k), max(-1, k - b.m), -1):
            alt = If(conds[la], b.c[k - la], alt)
        out.append(If(Lt(k, a.n), a.c[k], alt) if k < a.m else alt)
    return Atom(out, a.n + b.n)


class SymStr(object):
    """A string with at least one symbolic segment.  Never reaches native code (all dunders trap)."""
    __slots__ = ("segs", "_flat")

    def __init__(self, segs):
        self.segs = tuple(segs)
        self._flat = None

    # traps -------------------------------------------------------------------------------
    def _trap(self, *a, **k):
        raise SymEscape("SymStr escaped into native code")
    __bool__ = __hash__ = __len__ = __str__ = __iter__ = __contains__ = __getitem__ = _trap
    __eq__ = __ne__ = __lt__ = __le__ = __gt__ = __ge__ = __add__ = __radd__ = __mod__ = __rmod__ = __mul__ = _trap
    __int__ = __float__ = __index__ = __format__ = __bytes__ = __fspath__ = _trap

    def __repr__(self):
        return "<SymStr %s>" % "+".join(repr(s) if isinstance(s, str) else "~%s[%d]" % (s.name or "", s.m) for s in self.segs)

    # ---------------------------------------------------------------------------------------
    def flat(self):
        if self._flat is None:
            cap = None
            mx = self.maxlen()
            nsym = sum(1 for s in self.segs if not isinstance(s, str))
            if nsym >= 2 and mx > 24 and any(not isinstance(s, str) and s.name is None for s in self.segs):
                # derived atoms (slices) carry loose maxima: ask the solver for the real bound of the total length
                cap = tight_bound(self.length(), mx)
            acc = None
            origin = []
            off = 0
            for s in self.segs:
                a = Atom.lit(s) if isinstance(s, str) else s
                if isinstance(s, str):
                    for i, ch in enumerate(s):      # literal text: every character is a possible boundary
                        origin.append((ch, off + i))
                else:
                    origin.append((s, off))
                off = off + a.n
                acc = a if acc is None else concat_atoms(acc, a, cap)
            if acc is None:
                acc = Atom.lit("")
            if len(origin) > 1:
                if acc is self.segs[0]:
                    acc = Atom(acc.c, acc.n)
                acc.origin = origin
                alpha = []
                for sg in self.segs:
                    if isinstance(sg, str):
                        alpha.extend((ord(ch), ord(ch)) for ch in set(sg))
                    elif sg.alpha is None:
                        alpha = None
                        break
                    else:
                        alpha.extend(sg.alpha)
                acc.alpha = merge_ranges(alpha) if alpha is not None else None
            self._flat = acc
        return self._flat

    def length(self):
        return Sum([len(s) if isinstance(s, str) else s.n for s in self.segs])

    def maxlen(self):
        return sum(len(s) if isinstance(s, str) else s.m for s in self.segs)

    def nonempty(self):
        return Or(*[(len(s) > 0) if isinstance(s, str) else Gt(s.n, 0) for s in self.segs])

    def model_str(self, m):
        return "".join(s if isinstance(s, str) else s.model_str(m) for s in self.segs)


def mk(segs):
    """normalise a segment list into a Python str (fully concrete) or a SymStr"""
    out = []
    for s in segs:
        if isinstance(s, SymStr):
            parts = s.segs
        else:
            parts = (s,)
        for p in parts:
            if isinstance(p, str):
                if not p:
                    continue
                if out and isinstance(out[-1], str):
                    out[-1] = out[-1] + p
                else:
                    out.append(p)
            else:
                if p.is_conc():
                    t = p.conc()
                    if t:
                        if out and isinstance(out[-1], str):
                            out[-1] = out[-1] + t
                        else:
                            out.append(t)
                elif p.m == 0:
                    continue
                else:
                    out.append(p)
    if all(isinstance(p, str) for p in out):
        return "".join(out)
    return SymStr(out)


def as_atom(s):
    if isinstance(s, str):
        return Atom.lit(s)
    if isinstance(s, Atom):
        return s
    return s.flat()


def str_eq(a, b):
    """a == b for str / SymStr operands -> bool or Bool term"""
    if isinstance(a, str) and isinstance(b, str):
        return a == b
    if a is b:
        return True
    if isinstance(a, SymStr) and isinstance(b, SymStr) and len(a.segs) == len(b.segs) and \
            all(x is y or (isinstance(x, str) and x == y) for x, y in zip(a.segs, b.segs)):
        return True
    if isinstance(b, str):
        return as_atom(a).eq_lit(b) if len(a.segs) else (b == "")
    if isinstance(a, str):
        return as_atom(b).eq_lit(a)
    # cheap necessary condition first: lengths
    return as_atom(a).eq(as_atom(b))


def new_atom(name, maxlen):
    c = [z3.Int("%s.%d" % (name, i)) for i in range(maxlen)]
    n = z3.Int("%s.len" % name)
    return Atom(c, n, name=name)


# ---- integer rendering -----------------------------------------------------------------------

def render_int(t, maxdigits):
    """decimal rendering of a non-negative integer term t (t < 10**maxdigits): returns (SymStr, constraints)"""
    nm = fresh_name("itoa")
    cons = []
    nd = z3.Int(nm + ".nd")
    e = [z3.Int("%s.e%d" % (nm, i)) for i in range(maxdigits)]     # least significant first
    cons.append(z3.And(nd >= 1, nd <= maxdigits))
    for i, x in enumerate(e):
        cons.append(z3.And(x >= 0, x <= 9))
        cons.append(z3.Implies(nd <= i, x == 0))
    cons.append(t == z3.Sum([e[i] * (10 ** i) for i in range(maxdigits)]))
    # nd is the exact number of digits: leading digit non-zero unless the value is 0 (nd == 1)
    for k in range(2, maxdigits + 1):
        cons.append(z3.Implies(nd == k, e[k - 1] != 0))
    # string char k = e[nd-1-k] + 48
    conds = [nd == k for k in range(maxdigits + 1)]
    chars = []
    for k in range(maxdigits):
        r = 0
        for ndv in range(maxdigits, k, -1):
            r = If(conds[ndv], e[ndv - 1 - k] + 48, r)
        chars.append(r)
    digits = Atom(chars, nd, int_of=t, alpha=[(48, 57)], name=nm)
    return SymStr([digits]), cons


def rendered_int_of(s):
    """if s is exactly the rendering of an integer term, return that term"""
    if not isinstance(s, SymStr):
        return None
    segs = s.segs
    if len(segs) == 1 and isinstance(segs[0], Atom) and segs[0].int_of is not None:
        return segs[0].int_of
    if len(segs) == 2 and segs[0] == "-" and isinstance(segs[1], Atom) and segs[1].int_of is not None:
        if segs[1].int_neg is not None:
            return segs[1].int_neg
        return -segs[1].int_of
    return None
