"""Models of builtins, str / container methods and the `re` module for symbolic arguments.

Every model either computes the exact CPython result as terms, forks the path where the result's
*shape* (type, number of parts, presence of a group) depends on the symbolic value, or refuses
(UnsupportedConstruct).  With concrete arguments everything is delegated to CPython itself.
"""
import builtins
import operator
import re
import string as _string
import types
import ast

import z3

from . import sstr, rx
from .sstr import SymStr, Atom, SymEscape, mk, as_atom
from .terms import And, Or, Not, If, Eq, Ne, Lt, Le, Ge, Gt, Sum, in_ranges, simp
from .values import (Control, SymBool, SymInt, SymFloat, SYM, is_sym, mkbool, mkint, bterm, iterm, pytype, mark,
                     UnsupportedConstruct, BoundExceeded, PathInfeasible, EngineBug)

FUNC_MODELS = {}       # id(callable) -> (callable, model(I, args, kwargs))
METHOD_MODELS = {}     # (type, name) -> model(I, self, args, kwargs)
STR_METHODS = {}       # name -> model(I, s, args, kwargs)   (s: SymStr)
ENGINE_TYPES = []      # classes whose instances are engine objects (called / attribute-accessed natively)

MAX_SPLIT_PARTS = 24
MAX_INT_DIGITS = 18


def func_model(*fs):
    def deco(m):
        for f in fs:
            FUNC_MODELS[id(f)] = (f, m)
        return m
    return deco


def method_model(tp, *names):
    def deco(m):
        for n in names:
            METHOD_MODELS[(tp, n)] = m
        return m
    return deco


def str_method(*names):
    def deco(m):
        for n in names:
            STR_METHODS[n] = m
        return m
    return deco


def engine_type(cls):
    ENGINE_TYPES.append(cls)
    return cls


def install(I):
    pass


# ---------------------------------------------------------------------------------------------
# reachability of symbolic leaves

def contains_sym(x, depth=6, budget=None, seen=None):
    if isinstance(x, SYM):
        return True
    if isinstance(x, (str, int, float, bool, type(None), bytes, type, types.FunctionType, types.ModuleType)):
        return False
    if budget is None:
        budget = [4000]
        seen = set()
    if id(x) in seen:
        return False
    seen.add(id(x))
    budget[0] -= 1
    if budget[0] < 0:
        return True           # too big to scan: be conservative
    if depth <= 0:
        return False
    if isinstance(x, (list, tuple, set, frozenset)):
        return any(contains_sym(y, depth - 1, budget, seen) for y in x)
    if isinstance(x, dict):
        return any(contains_sym(y, depth - 1, budget, seen) for y in x.values())
    if isinstance(x, tuple(ENGINE_TYPES)):
        return getattr(x, "psx_symbolic", lambda: True)()
    d = getattr(x, "__dict__", None)
    if isinstance(d, dict) and not isinstance(x, (type, types.ModuleType)):
        return any(contains_sym(y, depth - 1, budget, seen) for y in d.values())
    return False


def symkeyish(k):
    """a dict key / set member that needs the symbolic-key treatment: a symbolic scalar, or a tuple holding one"""
    return isinstance(k, SYM) or (isinstance(k, tuple) and contains_sym(k, depth=3))


def _meets_symkeys(k, cont):
    return isinstance(k, (str, tuple)) and any(isinstance(x, SymKey) for x in cont)


def all_clean(args, kwargs):
    for a in args:
        if contains_sym(a):
            return False
    for a in kwargs.values():
        if contains_sym(a):
            return False
    return True


class SymMethod(object):
    """bound method of a symbolic value"""
    psx_engine = True

    def __init__(self, obj, name):
        self.obj = obj
        self.name = name
        self.__name__ = name

    def __call__(self, *args, **kwargs):
        from .interp import current
        return STR_METHODS[self.name](current(), self.obj, list(args), kwargs)


engine_type(SymMethod)


def sym_attr(I, o, name):
    if isinstance(o, SymStr):
        if name in STR_METHODS:
            return SymMethod(o, name)
        if hasattr(str, name):
            I.unsupported("str.%s on a symbolic string" % name)
        I.raise_(AttributeError("'str' object has no attribute '%s'" % name))
    tp = pytype(o)
    if isinstance(o, SymFloat) and name == "is_integer":
        return lambda: True          # a SymFloat is by construction the exact image of an integer (values.py)
    if hasattr(tp, name):
        I.unsupported("%s.%s on a symbolic value" % (tp.__name__, name))
    I.raise_(AttributeError("'%s' object has no attribute '%s'" % (tp.__name__, name)))


# ---------------------------------------------------------------------------------------------
# call dispatch for everything that is not interpreted source

SAFE_NATIVE = set()    # ids of callables that never look inside their arguments' leaves


def _safe(*fs):
    for f in fs:
        SAFE_NATIVE.add(id(f))


def call_native_method(I, f, args, kwargs):
    """bound method whose function is Python code outside the interpreted roots (stdlib, six, ...)"""
    fn = f.__func__
    ent = FUNC_MODELS.get(id(fn))
    if ent is not None:
        r = ent[1](I, [f.__self__] + list(args), kwargs)
        if r is not NotImplemented:
            return r
    slf = f.__self__
    if isinstance(slf, tuple(ENGINE_TYPES)) or getattr(fn, "psx_engine", False):
        return f(*args, **kwargs)
    if isinstance(slf, tuple) and hasattr(type(slf), "_fields") and f.__name__ in ("_replace", "_asdict"):
        return f(*args, **kwargs)         # namedtuple helpers only move values around
    if isinstance(slf, type) and issubclass(slf, tuple) and hasattr(slf, "_fields") and f.__name__ == "_make" and len(args) == 1 and not kwargs:
        # namedtuple._make(iterable): the values are only moved into the tuple
        items = list(iterate(I, args[0]))
        if len(items) != len(slf._fields):
            I.raise_(TypeError("Expected %d arguments, got %d" % (len(slf._fields), len(items))))
        return tuple.__new__(slf, items)
    if all_clean(list(args) + [slf], kwargs):
        return I.native(f, *args, **kwargs)
    if I.allow_on_demand(fn):
        return I.call(f, args, kwargs)
    I.unsupported("no model for %s with symbolic data" % getattr(f, "__qualname__", f))


_OBJECT_SLOTS = ("__setattr__", "__delattr__", "__getattribute__")


def _is_object_slot(f):
    """object.__setattr__ and friends, bound (method-wrapper) or unbound (slot wrapper): value-agnostic attribute access"""
    if getattr(f, "__name__", None) not in _OBJECT_SLOTS:
        return False
    if isinstance(f, types.MethodWrapperType):
        return getattr(type(f.__self__), f.__name__, None) is not None and getattr(f, "__objclass__", object) is object
    if isinstance(f, types.WrapperDescriptorType):
        return f.__objclass__ is object
    return False


def call_other(I, f, args, kwargs):
    if _is_object_slot(f):
        # super().__setattr__(name, value) inside a class's own __setattr__ hook: stores / reads the value, never looks inside it
        return I.native(f, *args, **kwargs)
    ent = FUNC_MODELS.get(id(f))
    if ent is not None:
        r = ent[1](I, args, kwargs)
        if r is not NotImplemented:
            return r
        if id(f) in SAFE_NATIVE or all_clean(args, kwargs):
            return I.native(f, *args, **kwargs)
        I.unsupported("model of %s declined symbolic arguments" % getattr(f, "__name__", f))
    if isinstance(f, tuple(ENGINE_TYPES)) or getattr(f, "psx_engine", False):
        return f(*args, **kwargs)
    slf = getattr(f, "__self__", None)
    if isinstance(f, types.BuiltinFunctionType) and slf is not None and not isinstance(slf, types.ModuleType):
        # bound method of a builtin object
        for k in type(slf).__mro__:
            m = METHOD_MODELS.get((k, f.__name__))
            if m is not None:
                r = m(I, slf, args, kwargs)
                if r is not NotImplemented:
                    return r
                break
        if isinstance(slf, tuple(ENGINE_TYPES)):
            return f(*args, **kwargs)
        if isinstance(slf, list) and f.__name__ in ("append", "extend", "copy", "reverse", "clear", "pop", "insert", "__len__", "__iter__"):
            # value-agnostic container operations (positions must be concrete)
            if f.__name__ in ("pop", "insert") and args and isinstance(args[0], SYM):
                I.unsupported("list.%s at a symbolic position" % f.__name__)
            if f.__name__ == "extend":
                return I.native(f, list(iterate(I, args[0])))
            return I.native(f, *args, **kwargs)
        if isinstance(slf, dict) and f.__name__ in ("items", "keys", "values", "copy", "clear", "popitem", "__len__", "__iter__"):
            return I.native(f, *args, **kwargs)
        if all_clean(args, kwargs) and (not isinstance(slf, (list, dict, set, tuple)) or True):
            # the receiver may hold symbolic leaves; container methods with clean arguments never inspect them,
            # except the comparison-based ones, which have models above
            return I.native(f, *args, **kwargs)
        I.unsupported("no model for %s.%s with symbolic arguments" % (type(slf).__name__, f.__name__))
    if isinstance(f, (types.MethodDescriptorType, types.WrapperDescriptorType, types.ClassMethodDescriptorType)):
        # unbound builtin method: str.join(sep, xs)
        if args:
            tp = f.__objclass__
            if isinstance(args[0], SYM) and issubclass(pytype(args[0]), tp) and isinstance(args[0], SymStr) \
                    and f.__name__ in STR_METHODS:
                return STR_METHODS[f.__name__](I, args[0], list(args[1:]), kwargs)
            m = METHOD_MODELS.get((tp, f.__name__))
            if m is not None and isinstance(args[0], tp):
                r = m(I, args[0], list(args[1:]), kwargs)
                if r is not NotImplemented:
                    return r
            if isinstance(args[0], tp) and isinstance(args[0], (list, dict, set, tuple)) and not isinstance(f, types.WrapperDescriptorType):
                # dict.keys(self) etc.: the same builtin method, bound
                return call_other(I, f.__get__(args[0]), list(args[1:]), kwargs)
        if all_clean(args, kwargs):
            return I.native(f, *args, **kwargs)
        I.unsupported("no model for %s with symbolic arguments" % f.__qualname__)
    if isinstance(f, type):
        return construct(I, f, args, kwargs)
    if all_clean(args, kwargs):
        return I.native(f, *args, **kwargs)
    if isinstance(f, types.FunctionType) and I.allow_on_demand(f):
        return I.call(f, args, kwargs)
    if isinstance(f, types.FunctionType) or isinstance(f, types.BuiltinFunctionType):
        I.unsupported("no model for %s.%s with symbolic arguments" % (getattr(f, "__module__", "?"), getattr(f, "__qualname__", f)))
    if isinstance(f, (operator.attrgetter, operator.itemgetter, operator.methodcaller)) and len(args) == 1 and not kwargs:
        # value-agnostic accessors: the same lookups the equivalent lambda would make, through the interpreter
        spec = f.__reduce__()
        obj = args[0]
        if isinstance(f, operator.attrgetter):
            def one(name):
                o = obj
                for part in name.split("."):
                    o = I.get_attr(o, part)
                return o
            names = spec[1]
            return one(names[0]) if len(names) == 1 else tuple(one(n) for n in names)
        if isinstance(f, operator.itemgetter):
            keys = spec[1]
            return I.getitem(obj, keys[0]) if len(keys) == 1 else tuple(I.getitem(obj, k) for k in keys)
        if isinstance(f, operator.methodcaller):
            if spec[0] is operator.methodcaller:
                name, margs, mkw = spec[1][0], list(spec[1][1:]), {}
            else:          # (functools.partial(methodcaller, name, **kwargs), args)
                name, margs, mkw = spec[0].args[0], list(spec[1]), dict(spec[0].keywords)
            return I.call(I.get_attr(obj, name), margs, mkw)
    # arbitrary callable object
    call = getattr(type(f), "__call__", None)
    if isinstance(call, types.FunctionType) and I.func_info(call) is not None:
        return I.call(types.MethodType(call, f), args, kwargs)
    I.unsupported("no model for callable %r with symbolic arguments" % (f,))


def construct(I, cls, args, kwargs):
    """cls(*args, **kwargs)"""
    if issubclass(cls, BaseException):
        # exception objects only store their arguments
        return cls(*args, **kwargs)
    init = None
    new = None
    for k in cls.__mro__:
        if init is None and "__init__" in k.__dict__:
            init = k.__dict__["__init__"]
        if new is None and "__new__" in k.__dict__:
            new = k.__dict__["__new__"]
    if isinstance(init, types.FunctionType) and I.func_info(init) is not None:
        if new is object.__new__ or not isinstance(new, (types.FunctionType, staticmethod)):
            try:
                obj = cls.__new__(cls)
            except TypeError:
                obj = I.native(cls.__new__, cls, *args, **kwargs)
        else:
            obj = I.native(cls.__new__, cls, *args, **kwargs)
        I.serial(obj)
        I.call(types.MethodType(init, obj), args, kwargs)
        return obj
    if getattr(cls, "_fields", None) is not None and issubclass(cls, tuple):
        return cls(*args, **kwargs)       # namedtuple: stores its arguments
    if all_clean(args, kwargs):
        return I.native(cls, *args, **kwargs)
    I.unsupported("constructor %s with symbolic arguments" % cls.__name__)


# ---------------------------------------------------------------------------------------------
# item access, iteration, membership

def _as_index(I, k):
    if isinstance(k, SymInt):
        return k
    if isinstance(k, SymBool):
        return SymInt(iterm(k))
    return k


def getitem(I, o, k):
    if isinstance(o, SymStr):
        return str_getitem(I, o, k)
    if isinstance(o, (memoryview, bytearray)) and isinstance(k, slice) and "symfiles" in I.options:
        from . import stubs
        n = len(o)
        lo = 0 if k.start is None else iterm(k.start)
        hi = n if k.stop is None else iterm(k.stop)
        if isinstance(lo, int) and lo < 0 or isinstance(hi, int) and hi < 0 or k.step not in (None, 1):
            I.unsupported("buffer slice with negative bounds or a step")
        hi = If(hi > n, n, hi) if not isinstance(hi, int) else min(hi, n)
        return stubs.SymBufView(o, lo, hi)
    if isinstance(o, str) and (isinstance(k, SymInt) or (isinstance(k, slice) and contains_sym([k.start, k.stop, k.step]))):
        return str_getitem(I, SymStr([Atom.lit(o)]), k)
    if isinstance(o, dict) and (symkeyish(k) or _meets_symkeys(k, o)):
        return dict_lookup(I, o, k, None, True)
    if isinstance(o, (list, tuple)) and isinstance(k, SymInt):
        n = len(o)
        conds = [Or(Eq(k.t, i), Eq(k.t, i - n)) for i in range(n)] + [Or(k.t >= n, k.t < -n)]
        j = I.choose_feasible(conds)
        if j == n:
            I.raise_(IndexError("%s index out of range" % type(o).__name__))
        return o[j]
    if not isinstance(o, (dict, list, tuple, str, bytes, range)) and not isinstance(o, tuple(ENGINE_TYPES)):
        gi = _find_dunder(type(o), "__getitem__")
        if isinstance(gi, types.FunctionType) and I.func_info(gi) is not None:
            return I.call(types.MethodType(gi, o), [k], {})
    if isinstance(k, SYM):
        I.unsupported("subscript of %s with a symbolic key" % type(o).__name__)
    return I.native(operator.getitem, o, k)


def _find_dunder(cls, name):
    for k in cls.__mro__:
        if name in k.__dict__:
            return k.__dict__[name]
    return None


def setitem(I, o, k, v):
    if symkeyish(k) and (isinstance(k, SYM) or isinstance(o, dict)):
        if isinstance(o, dict):
            k = dict_key(I, o, k)
        else:
            I.unsupported("item assignment with a symbolic key")
    if isinstance(o, (dict, list)) or isinstance(o, tuple(ENGINE_TYPES)):
        return I.native(operator.setitem, o, k, v)
    si = _find_dunder(type(o), "__setitem__")
    if isinstance(si, types.FunctionType) and I.func_info(si) is not None:
        return I.call(types.MethodType(si, o), [k, v], {})
    return I.native(operator.setitem, o, k, v)


def delitem(I, o, k):
    if symkeyish(k) and (isinstance(k, SYM) or isinstance(o, dict)):
        if isinstance(o, dict):
            k = dict_key(I, o, k)
        else:
            I.unsupported("del with a symbolic key")
    if isinstance(o, (dict, list)):
        return I.native(operator.delitem, o, k)
    di = _find_dunder(type(o), "__delitem__")
    if isinstance(di, types.FunctionType) and I.func_info(di) is not None:
        return I.call(types.MethodType(di, o), [k], {})
    return I.native(operator.delitem, o, k)


@engine_type
class SymKey(object):
    """placeholder for a dict key whose text is symbolic and provably different from every other key of the dict"""

    def __init__(self, s):
        self.s = s

    def psx_symbolic(self):
        return True

    def psx_eq(self, other):
        from .interp import current
        return current().eq(self.s, other.s if isinstance(other, SymKey) else other)

    def __repr__(self):
        return "<SymKey>"


def dict_key(I, d, k):
    """resolve a symbolic key against a dict: fork over 'equals existing key i' / 'a new key'"""
    tp = pytype(k)
    keys = [x for x in d if isinstance(x, tp) and not isinstance(x, SymKey)]
    skeys = [x for x in d if isinstance(x, SymKey) and pytype(x.s) is tp]
    conds = [bterm(I.eq(k, x)) for x in keys] + [bterm(I.eq(k, x.s)) for x in skeys]
    none = Not(Or(*conds)) if conds else True
    j = I.choose_feasible(conds + [none])
    if j < len(keys):
        return keys[j]
    if j < len(keys) + len(skeys):
        return skeys[j - len(keys)]
    return SymKey(k)


def concretize(I, v, limit=64):
    """fork over the finitely many values a symbolic str/int can take on this path"""
    if isinstance(v, SymStr):
        # enumerate by asking for models; the enumeration itself is recorded as one n-way decision
        vals = _enumerate_values(I, v, limit)
        conds = [bterm(I.eq(v, x)) for x in vals]
        j = I.choose_feasible(conds)
        return vals[j]
    if isinstance(v, SymInt):
        vals = _enumerate_values(I, v, limit)
        conds = [Eq(v.t, x) for x in vals]
        j = I.choose_feasible(conds)
        return vals[j]
    if isinstance(v, SymBool):
        return I.decide(v.t)
    return v


def _enumerate_values(I, v, limit):
    """all values the symbolic str/int can take on this path (memoised so that prefix replays agree)"""
    def enum():
        if I.fresh_mode:
            s = z3.Solver()
            s.set("timeout", I.hard_timeout_ms)
            for c in I.pc:
                s.add(c if not isinstance(c, bool) else z3.BoolVal(c))
        else:
            s = I.solver
        s.push()
        vals = []
        try:
            while True:
                r = str(s.check())
                I.stats.solver_calls += 1
                if r == "unknown":
                    raise UnsupportedConstruct("cannot enumerate the values of a symbolic key (solver unknown)")
                if r == "unsat":
                    break
                m = s.model()
                if isinstance(v, SymStr):
                    x = v.model_str(m)
                    e = I.eq(v, x)
                    s.add(Not(bterm(e)) if not isinstance(e, bool) else z3.BoolVal(not e))
                else:
                    x = m.eval(v.t, model_completion=True).as_long()
                    s.add(v.t != x)
                vals.append(x)
                if len(vals) > limit:
                    raise UnsupportedConstruct("a symbolic value used as a container key has more than %d possible values" % limit)
        finally:
            if not I.fresh_mode or s is not I.solver:
                s.pop()
        vals.sort()
        return vals
    return I.oracle(enum)


def dict_lookup(I, d, k, default, raise_):
    """d[k] / d.get(k, default) for a symbolic key over concrete keys: fork per key"""
    tp = pytype(k)
    keys = [x for x in d.keys() if isinstance(x, tp) or (tp in (int, bool) and isinstance(x, (int, bool))) or
            (isinstance(x, SymKey) and pytype(x.s) is tp)]
    conds = [bterm(I.eq(k, x.s if isinstance(x, SymKey) else x)) for x in keys]
    none = Not(Or(*conds)) if conds else True
    j = I.choose_feasible(conds + [none])
    if j < len(keys):
        return d[keys[j]]
    if raise_:
        I.raise_(KeyError(k))
    return default


def iterate(I, o):
    """a Python iterable of the elements of o"""
    if isinstance(o, dict):
        if any(isinstance(k, SymKey) for k in o):
            return [k.s if isinstance(k, SymKey) else k for k in o]      # interpreted code sees the key's text
        return o
    tn = type(o).__name__
    if tn == "dict_keys":
        return [k.s if isinstance(k, SymKey) else k for k in o]
    if tn == "dict_items":
        return [((k.s if isinstance(k, SymKey) else k), v) for k, v in o]
    if isinstance(o, (list, tuple, str, range, bytes)):
        return o
    if isinstance(o, (set, frozenset)):
        return [x.s if isinstance(x, SymKey) else x for x in set_order(I, o)]      # interpreted code sees the member's text
    if isinstance(o, SymStr):
        a = o.flat()
        n = concretize(I, SymInt(a.n), limit=a.m + 1) if not isinstance(a.n, int) else a.n
        return [mk([Atom([a.c[i]], 1)]) for i in range(n)]
    if isinstance(o, SYM):
        I.raise_(TypeError("'%s' object is not iterable" % pytype(o).__name__))
    if isinstance(o, tuple(ENGINE_TYPES)):
        return iter(o)
    it = _find_dunder(type(o), "__iter__")
    if isinstance(it, types.FunctionType) and I.func_info(it) is not None:
        return I.call(types.MethodType(it, o), [], {})
    return I.native(iter, o)


def canonical_set_items(I, s):
    items = list(s)
    try:
        return sorted(items)          # a fixed, hash-seed independent order
    except TypeError:
        return sorted(items, key=I.serial)


def set_order(I, s):
    """the order in which a set is iterated where the order can be observed.  With option set_order=nondet every
    order is explored (n! pure choices, one per set object and content: iteration order is stable while a set
    is not modified) - this is how 'any PYTHONHASHSEED' is covered."""
    items = canonical_set_items(I, s)
    if I.options.get("set_order") != "nondet" or len(items) < 2:
        return items
    key = (id(s), tuple(I.serial(x) if not isinstance(x, (str, int)) else x for x in items))
    memo = I.set_orders.get(key)
    if memo is not None:
        return list(memo)
    if len(items) > 4:
        I.unsupported("nondeterministic iteration of a set with more than 4 elements")
    out = []
    rest = items
    while len(rest) > 1:
        j = I.choose(len(rest))
        out.append(rest[j])
        rest = rest[:j] + rest[j + 1:]
    out = out + rest
    I.set_orders[key] = out
    I._keepalive.append(s)
    return list(out)


def iterate_unordered(I, o):
    """iteration whose order cannot influence the result (sorted(), set(), all(), ...): no fork"""
    if isinstance(o, (set, frozenset)):
        return [x.s if isinstance(x, SymKey) else x for x in canonical_set_items(I, o)]
    return iterate(I, o)


def make_set(I, elts):
    if any(isinstance(x, SYM) for x in elts):
        out = set()
        for x in elts:
            out.add(set_elem(I, out, x) if isinstance(x, SYM) else x)
        return out
    return I.native(set, elts)


def contains(I, item, cont):
    if isinstance(cont, SymStr) or (isinstance(cont, str) and isinstance(item, SymStr)):
        if not issubclass(pytype(item), str):
            I.raise_(TypeError("'in <string>' requires string as left operand"))
        return str_contains(I, cont, item)
    if isinstance(cont, (list, tuple)):
        if isinstance(item, SYM) or contains_sym(item, depth=3) or contains_sym(cont, depth=3):
            parts = []
            for x in cont:
                e = I.eq(item, x)
                if e is True:
                    return True
                if e is False:
                    continue
                parts.append(bterm(e))
            return mkbool(Or(*parts))
        return I.native(operator.contains, cont, item)
    if isinstance(cont, (dict, set, frozenset)) or type(cont).__name__ in ("dict_keys",):
        if symkeyish(item) or _meets_symkeys(item, cont):
            keys = [x for x in cont if isinstance(x, pytype(item)) or isinstance(x, SymKey)]
            return mkbool(Or(*[bterm(I.eq(item, x.s if isinstance(x, SymKey) else x)) for x in keys]))
        return I.native(operator.contains, cont, item)
    if isinstance(cont, SYM):
        I.raise_(TypeError("argument of type '%s' is not iterable" % pytype(cont).__name__))
    if isinstance(cont, tuple(ENGINE_TYPES)):
        return cont.__contains__(item)
    c = _find_dunder(type(cont), "__contains__")
    if isinstance(c, types.FunctionType) and I.func_info(c) is not None:
        return mkbool_of(I, I.call(types.MethodType(c, cont), [item], {}))
    if c is None:
        # falls back to iteration
        for x in iterate(I, cont):
            if I.truth(I.eq(item, x)):
                return True
        return False
    if isinstance(item, SYM):
        I.unsupported("membership of a symbolic value in %s" % type(cont).__name__)
    return I.native(operator.contains, cont, item)


def mkbool_of(I, v):
    t = I.truth_term(v)
    if t is None:
        return I.truth(v)
    return mkbool(t)


# ---------------------------------------------------------------------------------------------
# binary operators

def binop(I, op, l, r, inplace=False):
    sl, sr = isinstance(l, SYM), isinstance(r, SYM)
    if op is ast.Mod and isinstance(l, (str, SymStr)):
        return percent_format(I, l, r)
    if not sl and not sr:
        if op is ast.Add and isinstance(l, (list, tuple)) or op is ast.BitOr or op is ast.BitAnd or op is ast.Sub:
            pass
        fn = {ast.Add: operator.iadd, ast.Sub: operator.isub, ast.BitOr: operator.ior, ast.BitAnd: operator.iand,
              ast.Mult: operator.imul}.get(op) if inplace else None
        from .interp import _BINOPS
        return I.native(fn or _BINOPS[op], l, r)
    tl, tr = pytype(l), pytype(r)
    if issubclass(tl, str) and issubclass(tr, str):
        if op is ast.Add:
            return mk([l, r])
        I.raise_(TypeError("unsupported operand type(s) for str"))
    if issubclass(tl, str) and op is ast.Mult and issubclass(tr, int) and not sr:
        return mk([l] * r)
    num = (int, bool)
    if op is ast.Mult and (sl != sr) and (isinstance(l, (str, list, tuple)) and isinstance(r, SymInt) or isinstance(r, (str, list, tuple)) and isinstance(l, SymInt)):
        from . import numerics
        if numerics.enabled(I):
            seq, n = (l, r) if isinstance(r, SymInt) else (r, l)
            numerics.repeat_charge(I, len(seq), iterm(n))
            I.unsupported("sequence repeated a symbolic number of times (cost charged; the value is not modelled)")
    if issubclass(tl, num) and issubclass(tr, num):
        a, b = iterm(l), iterm(r)
        if op is ast.Pow and sr:
            from . import numerics
            if numerics.enabled(I):
                return numerics.pow_charge(I, a if isinstance(a, int) else None, b)
        if op is ast.Add:
            return mkint(a + b)
        if op is ast.Sub:
            return mkint(a - b)
        if op is ast.Mult:
            if isinstance(a, int) or isinstance(b, int):
                return mkint(a * b)
            I.unsupported("product of two symbolic integers")
        if op in (ast.FloorDiv, ast.Mod):
            if isinstance(b, int):
                if b == 0:
                    I.raise_(ZeroDivisionError("integer division or modulo by zero"))
                if b > 0:
                    # z3 div/mod are Euclidean: for positive divisors they equal Python's floor semantics
                    return mkint(a / b if op is ast.FloorDiv else a % b)
            I.unsupported("division by a symbolic or negative integer")
        if op in (ast.BitAnd, ast.BitOr, ast.BitXor) and issubclass(tl, bool) and issubclass(tr, bool):
            x = bterm(l) if isinstance(l, (bool, SymBool)) else None
            y = bterm(r) if isinstance(r, (bool, SymBool)) else None
            if x is not None and y is not None:
                return mkbool({ast.BitAnd: And(x, y), ast.BitOr: Or(x, y), ast.BitXor: Not(Eq(x, y)) if not isinstance(Eq(x, y), bool) else (x != y)}[op])
        I.unsupported("operator %s on symbolic integers" % op.__name__)
    if (issubclass(tl, (int, float)) and issubclass(tr, (int, float))):
        I.unsupported("float arithmetic on symbolic values")
    if op is ast.Add and isinstance(l, (list, tuple)) and isinstance(r, (list, tuple)):
        return I.native(operator.add, l, r)
    names = {ast.Add: "+", ast.Sub: "-", ast.Mult: "*", ast.Mod: "%", ast.BitOr: "|", ast.BitAnd: "&"}
    I.raise_(TypeError("unsupported operand type(s) for %s: '%s' and '%s'" % (names.get(op, op.__name__), tl.__name__, tr.__name__)))


# ---------------------------------------------------------------------------------------------
# str() / repr() / formatting

def to_str(I, v):
    """str(v)"""
    if isinstance(v, SymKey):
        v = v.s
    if isinstance(v, (str, SymStr)):
        return v
    if isinstance(v, SymInt):
        return render_int(I, v.t)
    if isinstance(v, SymBool):
        return "True" if I.decide(v.t) else "False"
    if isinstance(v, SymFloat):
        I.cut(And(v.t > -10 ** 16, v.t < 10 ** 16), "float rendering modelled for |x| < 1e16 only")
        return mk([render_int(I, v.t), ".0"])
    if v is None or isinstance(v, (int, float, bool, bytes)):
        return str(v)
    if isinstance(v, BaseException):
        if len(v.args) == 1 and not isinstance(v, KeyError):
            return to_str(I, v.args[0])
        if not contains_sym(v.args):
            return I.native(str, v)
        return opaque_text(I, "excmsg")
    if isinstance(v, (list, tuple, dict, set, frozenset)):
        if not contains_sym(v):
            return I.native(str, v)
        return to_repr(I, v)
    if isinstance(v, type):
        return I.native(str, v)
    f = _find_dunder(type(v), "__str__")
    if isinstance(f, types.FunctionType) and I.func_info(f) is not None:
        r = I.call(types.MethodType(f, v), [], {})
        if not isinstance(r, (str, SymStr)):
            I.raise_(TypeError("__str__ returned non-string (type %s)" % pytype(r).__name__))
        return r
    if f is object.__str__ or f is None:
        return to_repr(I, v)
    if contains_sym(v):
        I.unsupported("str() of %s holding symbolic data" % type(v).__name__)
    return I.native(str, v)


def to_repr(I, v):
    if isinstance(v, SymStr):
        return opaque_text(I, "repr")
    if isinstance(v, SymInt):
        return render_int(I, v.t)
    if isinstance(v, (SymBool, SymFloat)):
        return to_str(I, v)
    if isinstance(v, (list, tuple, dict, set, frozenset)) and contains_sym(v):
        return opaque_text(I, "repr")
    f = _find_dunder(type(v), "__repr__")
    if isinstance(f, types.FunctionType) and I.func_info(f) is not None:
        r = I.call(types.MethodType(f, v), [], {})
        if not isinstance(r, (str, SymStr)):
            I.raise_(TypeError("__repr__ returned non-string (type %s)" % pytype(r).__name__))
        return r
    if contains_sym(v) and f is not object.__repr__:
        return opaque_text(I, "repr")
    return I.native(repr, v)


def opaque_text(I, tag):
    """a text whose content psx does not model (diagnostic messages): an unconstrained short string"""
    a = sstr.new_atom(sstr.fresh_name("opaque." + tag), 6)
    I.add_side(a.domain_constraints())
    return SymStr([a])


def render_int(I, t):
    if isinstance(t, int):
        return str(t)
    cached = I.render_cache.get(t.get_id())
    if cached is not None and cached[0] is t:
        return cached[1]
    r = _render_int(I, t)
    I.render_cache[t.get_id()] = (t, r)
    return r


def _render_int(I, t):
    b = I.int_bounds.get(t.get_id())
    if b is not None and b[0] is not None and b[1] is not None:
        nd = len(str(max(abs(b[0]), abs(b[1]))))
        neg = I.decide(t < 0) if b[0] < 0 else False
    else:
        nd = MAX_INT_DIGITS
        lim = 10 ** MAX_INT_DIGITS
        if I.decide(Or(t >= lim, t <= -lim)):
            # beyond the rendering bound the text is not modelled digit by digit: an unconstrained digit string
            # (over-approximation; a counterexample that depends on it would not replay)
            a = sstr.new_atom(sstr.fresh_name("bigint"), 24)
            a.alpha = [(45, 45), (48, 57)]
            I.add_side(a.domain_constraints() + [a.n >= MAX_INT_DIGITS] + [z3.Or(c == 45, z3.And(c >= 48, c <= 57)) for c in a.c])
            return SymStr([a])
        neg = I.decide(t < 0)
    s, cons = sstr.render_int(-t if neg else t, nd)
    I.add_side(cons)
    if neg:
        s.segs[0].int_neg = t
    return mk(["-", s]) if neg else s


def format_value(I, v, spec):
    if spec in ("", None):
        return to_str(I, v)
    if not isinstance(v, SYM) and not isinstance(spec, SYM):
        return I.native(format, v, spec)
    if isinstance(v, SymStr) and spec == "s":
        return v
    if isinstance(v, SymInt) and spec == "d":
        return render_int(I, v.t)
    I.unsupported("format spec %r on a symbolic value" % (spec,))


_PCT = re.compile(r"%(?:\((?P<key>[^)]*)\))?(?P<flags>[-#0 +]*)(?P<width>\*|\d+)?(?:\.(?P<prec>\*|\d+))?(?P<conv>[diouxXeEfFgGcrsa%])")


def percent_format(I, fmt, arg):
    if isinstance(fmt, SymStr):
        I.unsupported("%-formatting with a symbolic format string")
    if not contains_sym(arg, depth=3) and not _needs_interp_str(I, arg):
        return I.native(operator.mod, fmt, arg)
    out = []
    pos = 0
    if isinstance(arg, tuple):
        args = list(arg)
        mapping = None
    elif isinstance(arg, dict):
        args = [arg]
        mapping = arg
    else:
        args = [arg]
        mapping = None
    ai = 0
    for m in _PCT.finditer(fmt):
        out.append(fmt[pos:m.start()])
        pos = m.end()
        conv = m.group("conv")
        if conv == "%":
            out.append("%")
            continue
        if m.group("key") is not None:
            if not isinstance(arg, dict):
                I.raise_(TypeError("format requires a mapping"))
            v = getitem(I, arg, m.group("key"))
        else:
            if ai >= len(args):
                I.raise_(TypeError("not enough arguments for format string"))
            v = args[ai]
            ai += 1
        plain = not m.group("flags") and m.group("width") is None and m.group("prec") is None
        if conv == "s" and plain:
            out.append(to_str(I, v))
        elif conv == "r" and plain:
            out.append(to_repr(I, v))
        elif conv in "di" and plain:
            if isinstance(v, (SymInt, SymBool)):
                out.append(render_int(I, iterm(v)))
            elif isinstance(v, SymFloat):
                out.append(render_int(I, v.t))
            elif isinstance(v, SymStr):
                I.raise_(TypeError("%d format: a real number is required, not str"))
            else:
                out.append(I.native(operator.mod, "%" + conv, (v,)))
        elif not isinstance(v, SYM) and not contains_sym(v):
            out.append(I.native(operator.mod, m.group(0), (v,)))
        else:
            I.unsupported("%%-format directive %r on a symbolic value" % m.group(0))
    out.append(fmt[pos:])
    if mapping is None and ai < len(args) and not (len(args) == 1 and isinstance(arg, dict)):
        I.raise_(TypeError("not all arguments converted during string formatting"))
    return mk(out)


def _needs_interp_str(I, arg):
    """formatting an object whose __str__/__repr__ is interpreted source must go through the interpreter"""
    items = arg if isinstance(arg, tuple) else (arg,)
    for v in items:
        if isinstance(v, (str, int, float, bool, type(None), list, tuple, dict, set, type)):
            continue
        if isinstance(v, BaseException):
            if contains_sym(v.args):
                return True
            continue
        f = _find_dunder(type(v), "__str__")
        g = _find_dunder(type(v), "__repr__")
        for h in (f, g):
            if isinstance(h, types.FunctionType) and I.func_info(h) is not None and contains_sym(v):
                return True
    return False


@method_model(str, "format")
def _str_format(I, s, args, kwargs):
    if all_clean(args, kwargs) and not any(_needs_interp_str(I, a) for a in args):
        return NotImplemented
    out = []
    auto = 0
    for lit, field, spec, conv in _string.Formatter().parse(s):
        out.append(lit)
        if field is None:
            continue
        first, rest = _string._string.formatter_field_name_split(field)
        if first == "":
            first = auto
            auto += 1
        if isinstance(first, int):
            if first >= len(args):
                I.raise_(IndexError("Replacement index %d out of range for positional args tuple" % first))
            v = args[first]
        else:
            if first not in kwargs:
                I.raise_(KeyError(first))
            v = kwargs[first]
        for is_attr, name in rest:
            v = I.get_attr(v, name) if is_attr else getitem(I, v, name)
        if conv == "r":
            v = to_repr(I, v)
        elif conv == "s":
            v = to_str(I, v)
        out.append(format_value(I, v, spec or ""))
    return mk(out)


# ---------------------------------------------------------------------------------------------
# symbolic str methods

def _lit(I, x, what):
    if isinstance(x, SymStr):
        I.unsupported("%s with a symbolic argument" % what)
    if not isinstance(x, str):
        I.raise_(TypeError("%s: must be str, not %s" % (what, pytype(x).__name__)))
    return x


def str_getitem(I, s, k):
    a = s.flat()
    n = a.n
    if isinstance(k, slice):
        if k.step is not None and k.step != 1:
            I.unsupported("string slice with a step")
        st, en = k.start, k.stop

        def norm(v, default):
            if v is None:
                return default
            v = iterm(v)
            # clamp like CPython: negative indices count from the end
            v = If(v < 0, If(v + n < 0, 0, v + n), If(v > n, n, v)) if not isinstance(v, int) or not isinstance(n, int) \
                else (max(0, v + n) if v < 0 else min(v, n))
            return simp(v) if not isinstance(v, int) else v
        st = norm(st, 0)
        en = norm(en, n)
        en2 = If(Lt(en, st), st, en) if not (isinstance(en, int) and isinstance(st, int)) else max(en, st)
        return canon_slice(I, mk([a.slice(simp(st), simp(en2))]))
    k = iterm(k)
    idx = If(k < 0, k + n, k) if not isinstance(k, int) else (k if k >= 0 else k + n)
    ok = And(Le(0, idx), Lt(idx, n))
    if not I.decide(ok):
        I.raise_(IndexError("string index out of range"))
    return mk([Atom([a.at(idx)], 1)])


def str_contains(I, hay, needle):
    if isinstance(needle, str):
        return mkbool(as_atom(hay).contains(needle))
    H = as_atom(hay)
    Nd = as_atom(needle)
    parts = []
    for k in range(H.m + 1):
        # needle occurs at k
        p = [Le(k + Nd.n, H.n)]
        for j in range(Nd.m):
            if k + j < H.m:
                p.append(Or(Le(Nd.n, j), Eq(H.c[k + j], Nd.c[j])))
            else:
                p.append(Le(Nd.n, j))
        parts.append(And(*p))
    return mkbool(Or(*parts))


@str_method("startswith")
def _s_startswith(I, s, args, kwargs):
    p = args[0]
    if len(args) > 1:
        I.unsupported("startswith with start/end")
    if isinstance(p, tuple):
        return mkbool(Or(*[bterm(_s_startswith(I, s, [x], {})) for x in p]))
    if isinstance(p, SymStr):
        return mkbool(s.flat().startswith_atom(p.flat()))
    p = _lit(I, p, "startswith")
    if isinstance(s.segs[0], str) and len(s.segs[0]) >= len(p):
        return s.segs[0].startswith(p)
    if isinstance(s.segs[0], str) and not p.startswith(s.segs[0]):
        return False
    return mkbool(s.flat().startswith(p))


@str_method("endswith")
def _s_endswith(I, s, args, kwargs):
    p = args[0]
    if len(args) > 1:
        I.unsupported("endswith with start/end")
    if isinstance(p, tuple):
        return mkbool(Or(*[bterm(_s_endswith(I, s, [x], {})) for x in p]))
    if isinstance(p, SymStr):
        return mkbool(s.flat().endswith_atom(p.flat()))
    p = _lit(I, p, "endswith")
    if isinstance(s.segs[-1], str) and len(s.segs[-1]) >= len(p):
        return s.segs[-1].endswith(p)
    if isinstance(s.segs[-1], str) and not p.endswith(s.segs[-1]):
        return False
    return mkbool(s.flat().endswith(p))


def _conc_str_method(name):
    def m(I, s, args, kwargs):
        if all_clean(args, kwargs):
            return NotImplemented
        return STR_METHODS[name](I, SymStr([Atom.lit(s)]) if s else SymStr([Atom.lit("")]), args, kwargs)
    return m


for _n in ("startswith", "endswith", "find", "rfind", "index", "count", "split", "rsplit", "splitlines", "replace", "strip", "lstrip",
           "rstrip", "partition", "rpartition"):
    METHOD_MODELS[(str, _n)] = _conc_str_method(_n)


@str_method("lower")
def _s_lower(I, s, args, kwargs):
    segs = []
    for seg in s.segs:
        if isinstance(seg, str):
            segs.append(seg.lower())
            continue
        fixed = sstr.table("lower_fixed")
        ok = seg.char_pred_all(lambda c: Or(And(c >= 65, c <= 90), in_ranges(c, fixed)))
        I.cut(ok, "str.lower() modelled for ASCII letters and characters lower() leaves unchanged")
        segs.append(Atom([If(And(c >= 65, c <= 90), c + 32, c) if not isinstance(c, int) else ord(chr(c).lower()) for c in seg.c],
                         seg.n, alpha=None))
    return mk(segs)


@str_method("upper")
def _s_upper(I, s, args, kwargs):
    I.unsupported("str.upper on a symbolic string")


def _strip_impl(I, s, chars, left, right):
    a = s.flat()
    if chars is None:
        sp = sstr.table("space")
        pred = lambda c: in_ranges(c, sp)
    else:
        chars = _lit(I, chars, "strip")
        cps = sorted(set(ord(x) for x in chars))
        pred = lambda c: Or(*[Eq(c, x) for x in cps])
    keep = [And(Lt(k, a.n), Not(pred(a.c[k]))) for k in range(a.m)]
    st = a.first_index(keep, default=a.n) if left else 0
    if right:
        last = a.last_index(keep, default=-1)
        en = last + 1
        en = If(Lt(en, st), st, en) if not (isinstance(en, int) and isinstance(st, int)) else max(en, st)
    else:
        en = a.n
    return canon_slice(I, mk([a.slice(simp(st), simp(en))]))


@str_method("strip")
def _s_strip(I, s, args, kwargs):
    return _strip_impl(I, s, args[0] if args else None, True, True)


@str_method("lstrip")
def _s_lstrip(I, s, args, kwargs):
    return _strip_impl(I, s, args[0] if args else None, True, False)


@str_method("rstrip")
def _s_rstrip(I, s, args, kwargs):
    return _strip_impl(I, s, args[0] if args else None, False, True)


@str_method("count")
def _s_count(I, s, args, kwargs):
    sub = _lit(I, args[0], "count")
    if len(args) > 1:
        I.unsupported("count with start/end")
    if len(sub) == 1:
        # cheap on ropes: literals are counted directly
        total = []
        for seg in s.segs:
            if isinstance(seg, str):
                total.append(seg.count(sub))
            else:
                total.append(seg.count_char(sub))
        return mkint(Sum(total))
    if sub == "":
        return mkint(s.length() + 1)
    if len(set(sub)) == len(sub) or not any(sub[:k] == sub[-k:] for k in range(1, len(sub))):
        a = s.flat()      # a pattern that cannot overlap itself: every occurrence counts
        return mkint(Sum([If(o, 1, 0) for o in a.occ(sub)]))
    I.unsupported("count of a self-overlapping pattern in a symbolic string")


@str_method("find")
def _s_find(I, s, args, kwargs):
    sub = _lit(I, args[0], "find")
    start = iterm(args[1]) if len(args) > 1 else 0
    if len(args) > 2:
        I.unsupported("find with end")
    return mkint(s.flat().find(sub, start))


@str_method("rfind")
def _s_rfind(I, s, args, kwargs):
    sub = _lit(I, args[0], "rfind")
    if len(args) > 1:
        I.unsupported("rfind with start/end")
    return mkint(s.flat().rfind(sub))


@str_method("index")
def _s_index(I, s, args, kwargs):
    r = _s_find(I, s, args, kwargs)
    if I.truth(I.eq(r, -1)):
        I.raise_(ValueError("substring not found"))
    return r


def _sep_free(seg, sep):
    """the atom is known not to contain the (single character) separator"""
    if seg.alpha is None:
        return False
    c = ord(sep)
    return not any(lo <= c <= hi for lo, hi in seg.alpha)


def _split_impl(I, s, sep, maxsplit, from_right):
    if sep is None:
        I.unsupported("whitespace split of a symbolic string")
    sep = _lit(I, sep, "split")
    if sep == "":
        I.raise_(ValueError("empty separator"))
    if isinstance(maxsplit, SYM):
        I.unsupported("symbolic maxsplit")
    if len(sep) != 1:
        I.unsupported("split of a symbolic string on a multi-character separator")
    # structural fast path: separator can only occur in literal segments
    if maxsplit < 0 and all(isinstance(seg, str) or _sep_free(seg, sep) for seg in s.segs):
        parts = [[]]
        for seg in s.segs:
            if isinstance(seg, str):
                pieces = seg.split(sep)
                parts[-1].append(pieces[0])
                for p in pieces[1:]:
                    parts.append([p])
            else:
                parts[-1].append(seg)
        return [mk(p) for p in parts]
    a = s.flat()
    occ = a.occ(sep)
    cnt = Sum([If(o, 1, 0) for o in occ])
    lim = MAX_SPLIT_PARTS if maxsplit < 0 else min(maxsplit, MAX_SPLIT_PARTS)
    conds = [Eq(cnt, i) for i in range(lim)] + [Ge(cnt, lim)]
    j = I.choose_feasible(conds)
    if j == lim and maxsplit < 0:
        raise BoundExceeded("split of a symbolic string into more than %d parts" % MAX_SPLIT_PARTS)
    nsplit = j
    parts = []
    if not from_right:
        prev = 0          # start of the current part
        for _ in range(nsplit):
            p = a.first_index([And(occ[k], Le(prev, k)) for k in range(a.m)], default=a.n)
            parts.append(mk([a.slice(prev, p)]))
            prev = p + 1
        parts.append(mk([a.slice(prev, a.n)]))
    else:
        end = a.n
        for _ in range(nsplit):
            p = a.last_index([And(occ[k], Lt(k, end)) for k in range(a.m)], default=-1)
            parts.append(mk([a.slice(p + 1, end)]))
            end = p
        parts.append(mk([a.slice(0, end)]))
        parts.reverse()
    return canon_slices(I, parts)


_LINE_BREAKS = [(10, 13), (0x1c, 0x1e), (0x85, 0x85), (0x2028, 0x2029)]


@str_method("splitlines")
def _s_splitlines(I, s, args, kwargs):
    """str.splitlines(): lines end at \n \r \r\n \v \f \x1c-\x1e \x85 \u2028 \u2029; no empty last line"""
    keep = args[0] if args else kwargs.get("keepends", False)
    if isinstance(keep, SYM) or keep:
        I.unsupported("splitlines(keepends=True) of a symbolic string")
    a = s.flat()
    term = []          # position k ends a line (for \r\n: the \n does)
    for k in range(a.m):
        t = And(Lt(k, a.n), in_ranges(a.c[k], _LINE_BREAKS))
        if k + 1 < a.m:
            t = And(t, Not(And(Eq(a.c[k], 13), Lt(k + 1, a.n), Eq(a.c[k + 1], 10))))
        term.append(t)
    cnt = Sum([If(t, 1, 0) for t in term])
    conds = [Eq(cnt, i) for i in range(MAX_SPLIT_PARTS)] + [Ge(cnt, MAX_SPLIT_PARTS)]
    j = I.choose_feasible(conds)
    if j == MAX_SPLIT_PARTS:
        raise BoundExceeded("splitlines of a symbolic string into more than %d lines" % MAX_SPLIT_PARTS)
    parts = []
    prev = 0
    for _ in range(j):
        p = a.first_index([And(term[k], Le(prev, k)) for k in range(a.m)], default=a.n)
        crlf = Or(*[And(Eq(p, k), Eq(a.c[k], 10), Le(prev, k - 1), Eq(a.c[k - 1], 13)) for k in range(1, a.m)]) if a.m > 1 else False
        parts.append(mk([a.slice(prev, If(crlf, p - 1, p))]))
        prev = p + 1
    if I.decide(Lt(prev, a.n)):
        parts.append(mk([a.slice(prev, a.n)]))
    return canon_slices(I, parts)


@str_method("split")
def _s_split(I, s, args, kwargs):
    sep = args[0] if args else kwargs.get("sep")
    ms = args[1] if len(args) > 1 else kwargs.get("maxsplit", -1)
    return _split_impl(I, s, sep, ms, False)


@str_method("rsplit")
def _s_rsplit(I, s, args, kwargs):
    sep = args[0] if args else kwargs.get("sep")
    ms = args[1] if len(args) > 1 else kwargs.get("maxsplit", -1)
    if ms < 0:
        return _split_impl(I, s, sep, ms, False)
    return _split_impl(I, s, sep, ms, True)


@str_method("partition")
def _s_partition(I, s, args, kwargs):
    sep = _lit(I, args[0], "partition")
    a = s.flat()
    p = a.find(sep)
    if I.decide(Eq(p, -1)):
        return (s, "", "")
    return (mk([a.slice(0, p)]), sep, mk([a.slice(p + len(sep), a.n)]))


@str_method("rpartition")
def _s_rpartition(I, s, args, kwargs):
    sep = _lit(I, args[0], "rpartition")
    a = s.flat()
    p = a.rfind(sep)
    if I.decide(Eq(p, -1)):
        return ("", "", s)
    return (mk([a.slice(0, p)]), sep, mk([a.slice(p + len(sep), a.n)]))


def filter_chars(a, keep):
    """compaction: the string of the characters a.c[k] with keep[k] (k < n), in order"""
    idx = []
    acc = 0
    for k in range(a.m):
        idx.append(acc)
        acc = acc + If(keep[k], 1, 0)
    n = acc
    out = []
    for j in range(a.m):
        r = 0
        for k in range(a.m - 1, j - 1, -1):
            r = If(And(keep[k], Eq(idx[k], j)), a.c[k], r)
        out.append(r)
    return Atom(out, n)


@str_method("replace")
def _s_replace(I, s, args, kwargs):
    old = _lit(I, args[0], "replace")
    new = args[1]
    if len(args) > 2:
        I.unsupported("replace with count")
    if isinstance(new, SymStr):
        I.unsupported("replace with a symbolic replacement")
    if len(old) == 1 and len(new) == 1:
        segs = []
        for seg in s.segs:
            if isinstance(seg, str):
                segs.append(seg.replace(old, new))
            else:
                segs.append(Atom([If(Eq(c, ord(old)), ord(new), c) for c in seg.c], seg.n))
        return mk(segs)
    if len(old) == 1 and new == "":
        segs = []
        for seg in s.segs:
            if isinstance(seg, str):
                segs.append(seg.replace(old, new))
            elif _sep_free(seg, old):
                segs.append(seg)
            else:
                segs.append(filter_chars(seg, [And(Lt(k, seg.n), Ne(seg.c[k], ord(old))) for k in range(seg.m)]))
        return mk(segs)
    if len(old) == 2 and old[0] == old[1] and new == "":
        # e.g. value.replace('%%', ''): left-to-right, non-overlapping pairs
        a = s.flat()
        c0 = ord(old[0])
        inpair = []        # position k is consumed as (first or second) char of a replaced pair
        prev_first = False  # position k-1 was the first char of a pair
        keep = []
        for k in range(a.m):
            is_c = And(Lt(k, a.n), Eq(a.c[k], c0))
            nxt = And(Lt(k + 1, a.n), Eq(a.c[k + 1], c0)) if k + 1 < a.m else False
            first = And(Not(prev_first), is_c, nxt)
            keep.append(And(Lt(k, a.n), Not(first), Not(prev_first)))
            prev_first = first
        return mk([filter_chars(a, keep)])
    I.unsupported("str.replace(%r, %r) on a symbolic string" % (old, new))


@str_method("join")
def _s_join(I, s, args, kwargs):
    items = list(iterate(I, args[0]))
    out = []
    for i, x in enumerate(items):
        if not issubclass(pytype(x), str):
            I.raise_(TypeError("sequence item %d: expected str instance, %s found" % (i, pytype(x).__name__)))
        if i:
            out.append(s)
        out.append(x)
    return mk(out)


@method_model(str, "join")
def _c_join(I, s, args, kwargs):
    items = list(iterate(I, args[0]))
    if not contains_sym(items, depth=1):
        return I.native(s.join, items)
    return _s_join(I, s, [items], {})


@str_method("format")
def _s_format(I, s, args, kwargs):
    I.unsupported("format on a symbolic format string")


@str_method("isdigit")
def _s_isdigit(I, s, args, kwargs):
    I.unsupported("str.isdigit on a symbolic string")


@str_method("encode")
def _s_encode(I, s, args, kwargs):
    I.unsupported("str.encode on a symbolic string")


@str_method("__len__")
def _s_len(I, s, args, kwargs):
    return mkint(s.length())


# ---------------------------------------------------------------------------------------------
# builtins

@func_model(isinstance)
def _isinstance(I, args, kwargs):
    v, t = args
    if isinstance(v, SYM):
        ts = t if isinstance(t, tuple) else (t,)
        flat = []
        for x in ts:
            flat.extend(x if isinstance(x, tuple) else (x,))
        return any(issubclass(pytype(v), x) for x in flat)
    return I.native(isinstance, v, t)


_safe(isinstance)


@func_model(type)
def _type(I, args, kwargs):
    if len(args) == 1:
        return pytype(args[0])
    return NotImplemented


@func_model(len)
def _len(I, args, kwargs):
    v = args[0]
    if isinstance(v, SymStr):
        return mkint(v.length())
    if isinstance(v, SYM):
        I.raise_(TypeError("object of type '%s' has no len()" % pytype(v).__name__))
    if isinstance(v, (list, tuple, dict, set, frozenset, str, bytes, range)):
        return len(v)
    f = _find_dunder(type(v), "__len__")
    if isinstance(f, types.FunctionType) and I.func_info(f) is not None:
        return I.call(types.MethodType(f, v), [], {})
    return I.native(len, v)


@func_model(bool)
def _bool(I, args, kwargs):
    if not args:
        return False
    return mkbool_of(I, args[0])


@func_model(str)
def _str(I, args, kwargs):
    if not args:
        return ""
    if len(args) > 1 or kwargs:
        return NotImplemented
    return to_str(I, args[0])


@func_model(repr)
def _repr(I, args, kwargs):
    return to_repr(I, args[0])


@func_model(int)
def _int(I, args, kwargs):
    if not args:
        return 0
    v = args[0]
    if len(args) > 1 or kwargs:
        if all_clean(args, kwargs):
            return NotImplemented
        I.unsupported("int() with a base on a symbolic value")
    if isinstance(v, SymInt):
        return v
    if isinstance(v, SymBool):
        return mkint(iterm(v))
    if isinstance(v, SymFloat):
        return mkint(v.t)
    if isinstance(v, SymStr):
        return parse_int(I, v)
    from . import numerics
    if isinstance(v, numerics.OpaqueFloat):
        return numerics.int_of_opaque_float(I, v)
    if isinstance(v, numerics.OpaqueDecimal):
        return v.__int__()
    return NotImplemented


def round_half_even_to_double(n):
    """the integer value of float(n) for an int n with |n| <= 2**64 (concrete twin of int_to_double, used by the self-test)"""
    a = abs(n)
    r = a
    for k in range(1, 12):
        m = 2 ** k
        if 2 ** (52 + k) <= a < 2 ** (53 + k) or (k == 11 and a == 2 ** 64):
            q, rem = divmod(a, m)
            up = rem > m // 2 or (rem == m // 2 and q % 2 == 1)
            r = (q + (1 if up else 0)) * m
    return r if n >= 0 else -r


def int_to_double(I, t):
    """the integer value of float(t): exact up to 2**53 (lemma int_float_roundtrip), round-half-to-even to a multiple of 2**k for
    2**(52+k) <= |t| < 2**(53+k), k = 1..11; larger magnitudes are cut"""
    if isinstance(t, int):
        return int(float(t)) if abs(t) < 2 ** 1000 else t
    # exact on this path (lemma int_float_roundtrip)?  Keeps the div/mod terms out of the common case.
    try:
        lo, hi = I.int_bounds.get(t.get_id(), (None, None))
    except Exception:
        lo, hi = None, None
    if lo is not None and hi is not None and lo >= -2 ** 53 and hi <= 2 ** 53:
        return t
    if not I.feasible(Or(t > 2 ** 53, t < -2 ** 53)):
        return t
    I.cut(And(t >= -2 ** 64, t <= 2 ** 64), "int -> float conversion modelled for |n| <= 2**64 (exact up to 2**53, round-half-even above)")
    a = If(t >= 0, t, -t)
    r = a
    for k in range(1, 12):
        m = 2 ** k
        q = a / m
        rem = a % m
        up = Or(rem > m // 2, And(rem == m // 2, q % 2 == 1))
        val = (q + If(up, 1, 0)) * m
        cond = And(a >= 2 ** (52 + k), a < 2 ** (53 + k)) if k < 11 else And(a >= 2 ** 63, a <= 2 ** 64)
        r = If(cond, val, r)
    return If(t >= 0, r, -r)


@func_model(float)
def _float(I, args, kwargs):
    if not args:
        return 0.0
    v = args[0]
    if isinstance(v, SymFloat):
        return v
    if isinstance(v, (SymInt, SymBool)):
        return SymFloat(int_to_double(I, iterm(v)))
    if isinstance(v, SymStr):
        t = sstr.rendered_int_of(v)
        if t is not None:
            return SymFloat(int_to_double(I, t))
        # render(t) + ".0"
        if len(v.segs) >= 2 and v.segs[-1] == ".0":
            t = sstr.rendered_int_of(SymStr(v.segs[:-1]))
            if t is not None:
                return SymFloat(t)
        from . import numerics
        if numerics.enabled(I):
            return numerics.float_of_text(I, v)
        I.unsupported("float() of a symbolic string that is not a rendered integer")
    from . import numerics
    if isinstance(v, numerics.OpaqueFloat):
        return v
    if isinstance(v, numerics.OpaqueDecimal):
        return numerics.OpaqueFloat(v.kind)
    return NotImplemented


def _canon_candidates(I, a):
    """(j, k, condition) candidates for slice atom a to coincide with segments j..k of its base rope, from the model"""
    base, st, en = a.view
    segs = base.origin
    m = I.model
    ev = lambda t: t if isinstance(t, int) else m.eval(t, model_completion=True).as_long()
    stv, env = ev(st), ev(en)
    ends = [ev(off + (len(sg) if isinstance(sg, str) else sg.n)) for sg, off in segs]
    offs = [ev(off) for sg, off in segs]
    cands = []
    for j in range(len(segs)):
        if offs[j] != stv:
            continue
        for k in range(j, len(segs)):
            if ends[k] == env:
                cands.append((j, k))
    cands.sort(key=lambda jk: (jk[1] - jk[0]))
    out = []
    for j, k in cands[:3]:
        sgk, offk = segs[k]
        endk = offk + (len(sgk) if isinstance(sgk, str) else sgk.n)
        out.append((j, k, simp(And(Eq(st, segs[j][1]), Eq(en, endk)))))
    # the empty slice
    if stv == env and not out:
        out.append((0, -1, simp(Eq(st, en))))
    return out


def _ensure_model(I):
    if I.model is None:
        r, m = I._check()
        if r != "sat":
            return False
        I.model = m
    return True


def canon_slices(I, strs):
    """for slices that provably coincide with whole segments of the rope they were cut from, return that sub-rope
    (same text on every model of the path, but carrying the segments' own structure).  One validity query for
    the whole batch, individual queries only when the batch fails."""
    atoms = []
    for s in strs:
        if isinstance(s, SymStr) and len(s.segs) == 1 and isinstance(s.segs[0], Atom) and s.segs[0].view is not None \
                and s.segs[0].canon is None:
            atoms.append(s.segs[0])
    if atoms:
        def search():
            if not _ensure_model(I):
                return [None] * len(atoms)
            cands = [_canon_candidates(I, a) for a in atoms]
            res = [None] * len(atoms)
            first = [(i, c[0]) for i, c in enumerate(cands) if c]
            if first:
                conj = And(*[c[2] for _, c in first])
                if conj is True or not I.feasible(Not(conj)):
                    for i, c in first:
                        res[i] = (c[0], c[1])
                    return res
            for i, cs in enumerate(cands):
                for j, k, cond in cs:
                    if cond is True or not I.feasible(Not(cond)):
                        res[i] = (j, k)
                        break
            return res
        res = I.oracle(search)
        for a, jk in zip(atoms, res):
            if jk is None:
                a.canon = False
            else:
                a.canon = mk([sg for sg, off in a.view[0].origin[jk[0]:jk[1] + 1]]) if jk[1] >= jk[0] else ""
                I.stats.canon_slices += 1
    out = []
    for s in strs:
        if isinstance(s, SymStr) and len(s.segs) == 1 and isinstance(s.segs[0], Atom) and s.segs[0].canon is not None and s.segs[0].canon is not False:
            out.append(s.segs[0].canon)
        else:
            out.append(s)
    return out


def canon_slice(I, s):
    return canon_slices(I, [s])[0]


def tighten(I, s):
    """re-bound a derived atom by the real maximum of its length on this path"""
    if not isinstance(s, SymStr) or len(s.segs) != 1:
        return s
    a = s.segs[0]
    if not isinstance(a, Atom) or a.name is not None or isinstance(a.n, int) or a.m <= 4:
        return s
    b = I.tight_bound(a.n, a.m)
    if b >= a.m:
        return s
    r = Atom(a.c[:b], a.n, alpha=a.alpha)
    r.view = a.view
    return SymStr([r]) if b > 0 else ""


def parse_int(I, s):
    t = sstr.rendered_int_of(s)
    if t is not None:
        return mkint(t)
    s = canon_slice(I, s)
    if isinstance(s, str):
        return I.native(int, s)
    t = sstr.rendered_int_of(s)
    if t is not None:
        return mkint(t)
    s = tighten(I, s)
    if isinstance(s, str):
        return I.native(int, s)
    a = s.flat()
    digit = sstr.table("digit")
    space = sstr.table("int_space")
    # outside the model: surrounding whitespace, digit-group underscores
    I.cut(a.char_pred_all(lambda c: And(Not(in_ranges(c, space)), Ne(c, 95))),
          "int(str) modelled for strings without whitespace and underscores")
    sign = And(Gt(a.n, 0), Or(Eq(a.c[0], 45), Eq(a.c[0], 43))) if a.m > 0 else False
    st = If(sign, 1, 0)
    isd = [in_ranges(a.c[k], digit) for k in range(a.m)]
    ok = And(Gt(a.n, st), *[Or(Lt(k, st), Le(a.n, k), isd[k]) for k in range(a.m)])
    if not I.decide(ok):
        I.raise_(ValueError("invalid literal for int() with base 10"))
    if a.m > MAX_INT_DIGITS + 1:
        if I.feasible(Gt(a.n, MAX_INT_DIGITS + 1)):
            raise BoundExceeded("int() of a symbolic string longer than %d characters" % (MAX_INT_DIGITS + 1))
    # value = sum over positions of digit * 10^(n-1-k)
    dv = [sstr.digit_value(a.c[k]) for k in range(a.m)]
    val = 0
    conds = {}
    total = 0
    # accumulate left to right: v = v*10 + d  (linear because the running value is multiplied by a constant)
    acc = 0
    for k in range(a.m):
        use = And(Le(st, k), Lt(k, a.n))
        acc = If(use, acc * 10 + dv[k], acc)
    neg = And(sign, Eq(a.c[0], 45)) if a.m > 0 else False
    return mkint(If(neg, -acc, acc))


@func_model(getattr)
def _getattr(I, args, kwargs):
    if len(args) == 3:
        try:
            return I.get_attr(args[0], _name(I, args[1]))
        except AttributeError as e:
            return args[2]
    return I.get_attr(args[0], _name(I, args[1]))


def _name(I, n):
    if isinstance(n, SymStr):
        return concretize(I, n)
    return n


@func_model(hasattr)
def _hasattr(I, args, kwargs):
    try:
        I.get_attr(args[0], _name(I, args[1]))
        return True
    except AttributeError:
        return False


@func_model(setattr)
def _setattr(I, args, kwargs):
    I.set_attr(args[0], _name(I, args[1]), args[2])


_safe(callable, dir, id, delattr, vars, iter, next, enumerate, zip, reversed, print, super, issubclass)
for _f in (callable, dir, id, delattr, vars, next, enumerate, zip, reversed, super, issubclass):
    FUNC_MODELS[id(_f)] = (_f, lambda I, a, k: NotImplemented)


@func_model(print)
def _print(I, args, kwargs):
    return None


@func_model(iter)
def _iter(I, args, kwargs):
    if len(args) == 1:
        return iter(iterate(I, args[0]))
    if len(args) == 2 and not kwargs:
        # iter(callable, sentinel): call until the result equals the sentinel (the comparison is the interpreter's, so symbolic results fork)
        f, sentinel = args

        def until_sentinel():
            n = 0
            while True:
                v = I.call(f, [], {})
                if I.truth(I.eq(v, sentinel)):
                    return
                n += 1
                if n > 4096:
                    raise BoundExceeded("iter(callable, sentinel) did not reach its sentinel within 4096 calls")
                yield v
        return until_sentinel()
    return NotImplemented


@func_model(list)
def _list(I, args, kwargs):
    if not args:
        return []
    return list(iterate(I, args[0]))


@func_model(tuple)
def _tuple(I, args, kwargs):
    if not args:
        return ()
    return tuple(iterate(I, args[0]))


@func_model(set)
def _set(I, args, kwargs):
    if not args:
        return set()
    return make_set(I, list(iterate_unordered(I, args[0])))


@func_model(frozenset)
def _frozenset(I, args, kwargs):
    if not args:
        return frozenset()
    return frozenset(make_set(I, list(iterate_unordered(I, args[0]))))


@func_model(dict)
def _dict(I, args, kwargs):
    d = {}
    if args:
        src = args[0]
        if isinstance(src, dict):
            d.update(src)
        else:
            for pair in iterate(I, src):
                k, v = list(iterate(I, pair))
                setitem(I, d, k, v)
    for k, v in kwargs.items():
        d[k] = v
    return d


def _sort_keys(I, items, key, reverse):
    keys = [I.call(key, [x], {}) for x in items] if key is not None else list(items)
    n = len(items)
    if isinstance(reverse, SYM):
        reverse = I.truth(reverse)
    if not contains_sym(keys, depth=3):
        order = I.native(sorted, range(n), key=lambda i: keys[i], reverse=bool(reverse))
        return [items[i] for i in order]
    # insertion sort; every comparison on symbolic keys forks (stable, like list.sort)
    order = []
    for i in range(n):
        j = len(order)
        while j > 0:
            a, b = keys[order[j - 1]], keys[i]
            lt = I.order(ast.Lt, b, a) if not reverse else I.order(ast.Lt, a, b)
            if I.truth(lt):
                j -= 1
            else:
                break
        order.insert(j, i)
    return [items[i] for i in order]


@func_model(sorted)
def _sorted(I, args, kwargs):
    items = list(iterate_unordered(I, args[0]) if kwargs.get("key") is None else iterate(I, args[0]))
    return _sort_keys(I, items, kwargs.get("key"), kwargs.get("reverse", False))


@method_model(list, "sort")
def _list_sort(I, lst, args, kwargs):
    res = _sort_keys(I, list(lst), kwargs.get("key"), kwargs.get("reverse", False))
    lst[:] = res
    return None


@method_model(list, "index", "count", "remove", "__contains__")
def _list_search(I, lst, args, kwargs):
    if not contains_sym(lst, depth=2) and all_clean(args, kwargs):
        return NotImplemented
    I.unsupported("list search with symbolic elements")


@method_model(dict, "get")
def _dict_get(I, d, args, kwargs):
    if symkeyish(args[0]) or _meets_symkeys(args[0], d):
        return dict_lookup(I, d, args[0], args[1] if len(args) > 1 else None, False)
    return I.native(d.get, *args)


def _dict_keyed_factory(name):
    def m(I, d, args, kwargs):
        if args and symkeyish(args[0]):
            args = [dict_key(I, d, args[0])] + list(args[1:])
        if args and contains_sym(args[0]) and not isinstance(args[0], SymKey):
            I.unsupported("dict key containing symbolic data")
        return I.native(getattr(d, name), *args, **kwargs)     # values are stored, never inspected
    return m


for _n in ("setdefault", "pop", "__getitem__", "__setitem__", "__delitem__", "__contains__"):
    METHOD_MODELS[(dict, _n)] = _dict_keyed_factory(_n)


@method_model(dict, "update")
def _dict_update(I, d, args, kwargs):
    if args and not isinstance(args[0], dict):
        for pair in iterate(I, args[0]):
            k, v = list(iterate(I, pair))
            setitem(I, d, k, v)
        args = []
    return I.native(d.update, *args, **kwargs)


def set_elem(I, s, k):
    """resolve a symbolic element against a set: an existing member with equal text, or a new SymKey member"""
    tp = pytype(k)
    mem = [x for x in s if isinstance(x, tp) and not isinstance(x, SymKey)]
    smem = [x for x in s if isinstance(x, SymKey) and pytype(x.s) is tp]
    conds = [bterm(I.eq(k, x)) for x in mem] + [bterm(I.eq(k, x.s)) for x in smem]
    none = Not(Or(*conds)) if conds else True
    j = I.choose_feasible(conds + [none])
    if j < len(mem):
        return mem[j]
    if j < len(mem) + len(smem):
        return smem[j - len(mem)]
    return SymKey(k)


def _set_method_factory(name):
    def m(I, s, args, kwargs):
        new = []
        for a in args:
            if isinstance(a, SYM):
                if name in ("add", "discard", "remove", "__contains__"):
                    new.append(set_elem(I, s, a))
                else:
                    new.append(concretize(I, a))
            elif isinstance(a, (list, tuple)) and contains_sym(a, depth=1):
                if name in ("update", "union"):
                    tmp = set(s)
                    elems = []
                    for x in a:
                        e = set_elem(I, tmp, x) if isinstance(x, SYM) else x
                        tmp.add(e)
                        elems.append(e)
                    new.append(elems)
                else:
                    new.append([concretize(I, x) for x in a])
            else:
                new.append(a)
        return I.native(getattr(s, name), *new, **kwargs)
    return m


for _n in ("add", "update", "union", "discard", "remove", "issubset", "issuperset", "intersection", "difference",
           "__contains__", "__or__", "__and__", "__sub__"):
    METHOD_MODELS[(set, _n)] = _set_method_factory(_n)
    METHOD_MODELS[(frozenset, _n)] = _set_method_factory(_n)


@func_model(min, max)
def _minmax(I, args, kwargs):
    if all_clean(args, kwargs):
        return NotImplemented
    I.unsupported("min/max over symbolic values")


@func_model(sum)
def _sum(I, args, kwargs):
    if all_clean(args, kwargs):
        return NotImplemented
    acc = args[1] if len(args) > 1 else 0
    for x in iterate(I, args[0]):
        acc = binop(I, ast.Add, acc, x)
    return acc


@func_model(any)
def _any(I, args, kwargs):
    for x in iterate(I, args[0]):
        if I.truth(x):
            return True
    return False


@func_model(all)
def _all(I, args, kwargs):
    for x in iterate(I, args[0]):
        if not I.truth(x):
            return False
    return True


@func_model(abs)
def _abs(I, args, kwargs):
    v = args[0]
    if isinstance(v, SymInt):
        return mkint(If(v.t < 0, -v.t, v.t))
    return NotImplemented


@func_model(map)
def _map(I, args, kwargs):
    f = args[0]
    its = [list(iterate(I, a)) for a in args[1:]]
    return iter([I.call(f, list(xs), {}) for xs in zip(*its)])


@func_model(filter)
def _filter(I, args, kwargs):
    f, it = args
    out = []
    for x in iterate(I, it):
        if I.truth(x if f is None else I.call(f, [x], {})):
            out.append(x)
    return iter(out)


@func_model(hash)
def _hash(I, args, kwargs):
    if contains_sym(args[0]):
        I.unsupported("hash of a symbolic value")
    return NotImplemented


@func_model(ord)
def _ord(I, args, kwargs):
    v = args[0]
    if isinstance(v, SymStr):
        a = v.flat()
        if not I.decide(Eq(a.n, 1)):
            I.raise_(TypeError("ord() expected a character"))
        return mkint(a.c[0])
    return NotImplemented


@func_model(format)
def _format(I, args, kwargs):
    return format_value(I, args[0], args[1] if len(args) > 1 else "")


# ---------------------------------------------------------------------------------------------
# the re module

@engine_type
class SymMatch(object):
    """result of a successful match of a pattern on a symbolic string"""

    def __init__(self, prog, enc, subject, pattern_obj):
        self.prog = prog
        self.enc = enc
        self.subject = subject        # Atom
        self.re = pattern_obj
        self.string = mk([subject])
        self._g = {}

    def psx_symbolic(self):
        return True

    def _group(self, g):
        from .interp import current
        I = current()
        if isinstance(g, str):
            if g not in self.prog.groupindex:
                I.raise_(IndexError("no such group"))
            g = self.prog.groupindex[g]
        if isinstance(g, SYM):
            I.unsupported("symbolic group index")
        if g == 0:
            return mk([self.subject.slice(self.enc.start(), self.enc.end())])
        if g < 0 or g > self.prog.groups:
            I.raise_(IndexError("no such group"))
        if g in self._g:
            return self._g[g]
        present, st, en = self.enc.group(g)
        if g in self.prog.mandatory or I.decide(present):
            v = mk([self.subject.slice(st, en)])
        else:
            v = None
        self._g[g] = v
        return v

    def group(self, *gs):
        if not gs:
            return self._canon([self._group(0)])[0]
        if len(gs) == 1:
            return self._canon([self._group(gs[0])])[0]
        return tuple(self._canon([self._group(g) for g in gs]))

    def __getitem__(self, g):
        return self._group(g)

    def _canon(self, vals):
        from .interp import current
        I = current()
        idx = [i for i, v in enumerate(vals) if isinstance(v, SymStr)]
        res = canon_slices(I, [vals[i] for i in idx])
        vals = list(vals)
        for i, r in zip(idx, res):
            vals[i] = r
        return vals

    def groups(self, default=None):
        out = []
        for g in range(1, self.prog.groups + 1):
            v = self._group(g)
            out.append(default if v is None else v)
        return tuple(self._canon(out))

    def groupdict(self, default=None):
        names = list(self.prog.groupindex.items())
        vals = []
        for name, g in names:
            v = self._group(g)
            vals.append(default if v is None else v)
        vals = self._canon(vals)
        return dict((n, v) for (n, g), v in zip(names, vals))

    def _span(self, g):
        from .interp import current
        I = current()
        if isinstance(g, str):
            g = self.prog.groupindex[g]
        if g == 0:
            return mkint(self.enc.start()), mkint(self.enc.end())
        present, st, en = self.enc.group(g)
        if g in self.prog.mandatory or I.decide(present):
            return mkint(st), mkint(en)
        return -1, -1

    def start(self, g=0):
        return self._span(g)[0]

    def end(self, g=0):
        return self._span(g)[1]

    def span(self, g=0):
        return self._span(g)

    def __bool__(self):
        return True


_ENC_CACHE = {}


def regex_match(I, pattern, flags, s, full=False, pattern_obj=None, search=False):
    I.stats.patterns.add(pattern)
    try:
        prog = rx.program(pattern, flags, search)
    except rx.Unsupported as e:
        I.unsupported(str(e))
    a = s.flat()
    key = (pattern, flags, id(a), full, search)
    ent = _ENC_CACHE.get(key)
    if ent is None or ent[1] is not a:
        if len(_ENC_CACHE) > 2000:
            _ENC_CACHE.clear()
        ent = (rx.Enc(prog, a, full=full), a)
        _ENC_CACHE[key] = ent
    enc = ent[0]
    if I.decide(enc.matched()):
        return SymMatch(prog, enc, a, pattern_obj)
    return None


def _flags_of(I, args, kwargs, pos):
    fl = args[pos] if len(args) > pos else kwargs.get("flags", 0)
    return int(fl)


@func_model(re.match)
def _re_match(I, args, kwargs):
    pat, s = args[0], args[1]
    if isinstance(pat, re.Pattern):
        return _pattern_match(I, pat, [s], {})
    if isinstance(pat, SymStr):
        I.unsupported("symbolic regular expression")
    if isinstance(s, SymStr):
        return regex_match(I, pat, _flags_of(I, args, kwargs, 2), s)
    if isinstance(pat, str):
        I.stats.patterns.add(pat)
    if isinstance(s, SYM):
        I.raise_(TypeError("expected string or bytes-like object, got '%s'" % pytype(s).__name__))
    return NotImplemented


@func_model(re.fullmatch)
def _re_fullmatch(I, args, kwargs):
    pat, s = args[0], args[1]
    if isinstance(s, SymStr) and isinstance(pat, str):
        return regex_match(I, pat, _flags_of(I, args, kwargs, 2), s, full=True)
    if isinstance(pat, str):
        I.stats.patterns.add(pat)
    return NotImplemented


@func_model(re.compile)
def _re_compile(I, args, kwargs):
    if isinstance(args[0], str):
        I.stats.patterns.add(args[0])
    return NotImplemented


@func_model(re.search)
def _re_search(I, args, kwargs):
    pat, s = args[0], args[1]
    if isinstance(pat, re.Pattern):
        return _pattern_search(I, pat, [s], {})
    if isinstance(pat, str):
        I.stats.patterns.add(pat)
    if isinstance(s, SymStr) and isinstance(pat, str):
        return regex_match(I, pat, _flags_of(I, args, kwargs, 2), s, search=True)
    return NotImplemented


@func_model(re.sub, re.findall, re.finditer, re.subn)
def _re_other(I, args, kwargs):
    if isinstance(args[0], str):
        I.stats.patterns.add(args[0])
    if all_clean(args, kwargs):
        return NotImplemented
    I.unsupported("re.%s on a symbolic string" % "search/sub/findall")


@method_model(re.Pattern, "match")
def _pattern_match(I, pat, args, kwargs):
    s = args[0]
    I.stats.patterns.add(pat.pattern)
    if isinstance(s, SymStr):
        if len(args) > 1:
            I.unsupported("Pattern.match with pos")
        return regex_match(I, pat.pattern, pat.flags & ~re.UNICODE, s, pattern_obj=pat)
    if isinstance(s, SYM) or not isinstance(s, (str, bytes)):
        I.raise_(TypeError("expected string or bytes-like object, got '%s'" % pytype(s).__name__))
    return NotImplemented


@method_model(re.Pattern, "fullmatch")
def _pattern_fullmatch(I, pat, args, kwargs):
    s = args[0]
    I.stats.patterns.add(pat.pattern)
    if isinstance(s, SymStr):
        return regex_match(I, pat.pattern, pat.flags & ~re.UNICODE, s, full=True, pattern_obj=pat)
    if isinstance(s, SYM):
        I.raise_(TypeError("expected string or bytes-like object"))
    return NotImplemented


@method_model(re.Pattern, "search")
def _pattern_search(I, pat, args, kwargs):
    s = args[0]
    I.stats.patterns.add(pat.pattern)
    if isinstance(s, SymStr):
        if len(args) > 1:
            I.unsupported("Pattern.search with pos")
        return regex_match(I, pat.pattern, pat.flags & ~re.UNICODE, s, pattern_obj=pat, search=True)
    if isinstance(s, SYM):
        I.raise_(TypeError("expected string or bytes-like object"))
    return NotImplemented


@method_model(re.Pattern, "sub", "subn", "findall", "finditer", "split")
def _pattern_other(I, pat, args, kwargs):
    I.stats.patterns.add(pat.pattern)
    if all_clean(args, kwargs):
        return NotImplemented
    I.unsupported("Pattern method on a symbolic string")


@func_model(re.split)
def _re_split(I, args, kwargs):
    pat, s = args[0], args[1]
    if isinstance(pat, str):
        I.stats.patterns.add(pat)
    if not isinstance(s, SymStr):
        return NotImplemented
    # single character class: split at every matching character
    try:
        prog = rx.program(pat)
    except rx.Unsupported as e:
        I.unsupported(str(e))
    if len(prog.prog) != 2 or prog.prog[0][0] != "char":
        I.unsupported("re.split of a symbolic string on a pattern that is not a single character class")
    cc = prog.prog[0][1]
    a = s.flat()
    occ = [And(Lt(k, a.n), cc(a.c[k])) for k in range(a.m)]
    cnt = Sum([If(o, 1, 0) for o in occ])
    conds = [Eq(cnt, i) for i in range(MAX_SPLIT_PARTS)] + [Ge(cnt, MAX_SPLIT_PARTS)]
    j = I.choose_feasible(conds)
    if j == MAX_SPLIT_PARTS:
        raise BoundExceeded("re.split of a symbolic string into more than %d parts" % MAX_SPLIT_PARTS)
    parts = []
    prev = 0
    for _ in range(j):
        p = a.first_index([And(occ[k], Le(prev, k)) for k in range(a.m)], default=a.n)
        parts.append(mk([a.slice(prev, p)]))
        prev = p + 1
    parts.append(mk([a.slice(prev, a.n)]))
    return parts


import itertools as _itertools


@func_model(_itertools.chain)
def _chain(I, args, kwargs):
    out = []
    for a in args:
        out.extend(iterate(I, a))
    return iter(out)


@func_model(_itertools.chain.from_iterable)
def _chain_from_iterable(I, args, kwargs):
    out = []
    for a in iterate(I, args[0]):
        out.extend(iterate(I, a))
    return iter(out)


@func_model(_itertools.islice)
def _islice(I, args, kwargs):
    if contains_sym(list(args[1:])):
        I.unsupported("islice with symbolic bounds")
    return iter(list(_itertools.islice(list(iterate(I, args[0])), *args[1:])))


@func_model(_itertools.product)
def _product(I, args, kwargs):
    return iter(list(_itertools.product(*[list(iterate(I, a)) for a in args], **kwargs)))


# six helpers are plain Python outside the interpreted roots; they only re-export dict views
def _install_six():
    try:
        import six
    except ImportError:
        return
    for name in ("itervalues", "iteritems", "iterkeys", "viewvalues", "viewitems", "viewkeys"):
        f = getattr(six, name, None)
        if f is not None:
            FUNC_MODELS[id(f)] = (f, (lambda f: lambda I, a, k: I.native(f, *a, **k))(f))


_install_six()

from . import numerics  # noqa: E402,F401  (registers the decimal.Decimal model)
