"""Small term algebra over z3 with Python-constant folding.

Booleans are Python bools or z3 BoolRefs, integers are Python ints or z3 ArithRefs.
Every helper folds constants so that fully concrete inputs never create solver terms.
"""
import z3

BoolRef = z3.BoolRef
ArithRef = z3.ArithRef
TRUE = z3.BoolVal(True)
FALSE = z3.BoolVal(False)


def is_conc(x):
    return isinstance(x, (bool, int))


def _b(x):
    if isinstance(x, bool):
        return TRUE if x else FALSE
    return x


def is_true(x):
    return x is True or (isinstance(x, z3.BoolRef) and z3.is_true(x))


def is_false(x):
    return x is False or (isinstance(x, z3.BoolRef) and z3.is_false(x))


def And(*a):
    out = []
    for x in a:
        if is_true(x):
            continue
        if is_false(x):
            return False
        out.append(x)
    if not out:
        return True
    if len(out) == 1:
        return out[0]
    return z3.And(*out)


def Or(*a):
    out = []
    for x in a:
        if is_false(x):
            continue
        if is_true(x):
            return True
        out.append(x)
    if not out:
        return False
    if len(out) == 1:
        return out[0]
    return z3.Or(*out)


def Not(a):
    if is_true(a):
        return False
    if is_false(a):
        return True
    return z3.Not(a)


def Implies(a, b):
    return Or(Not(a), b)


def Iff(a, b):
    if isinstance(a, bool) or is_true(a) or is_false(a):
        return b if is_true(a) else Not(b)
    if isinstance(b, bool) or is_true(b) or is_false(b):
        return a if is_true(b) else Not(a)
    return a == b


def If(c, a, b):
    if is_true(c):
        return a
    if is_false(c):
        return b
    if a is b:
        return a
    if isinstance(a, (int, bool)) and isinstance(b, (int, bool)) and type(a) is type(b) and a == b:
        return a
    if isinstance(a, bool) or isinstance(b, bool) or isinstance(a, z3.BoolRef) or isinstance(b, z3.BoolRef):
        if is_true(a) and is_false(b):
            return c
        if is_false(a) and is_true(b):
            return Not(c)
        return z3.If(c, _b(a), _b(b))
    return z3.If(c, a, b)


def Eq(a, b):
    r = (a == b)
    if isinstance(r, bool):
        return r
    return r


def Ne(a, b):
    return Not(Eq(a, b))


def Lt(a, b):
    return a < b


def Le(a, b):
    return a <= b


def Ge(a, b):
    return a >= b


def Gt(a, b):
    return a > b


def Sum(xs):
    conc = 0
    sym = []
    for x in xs:
        if isinstance(x, int):
            conc += x
        else:
            sym.append(x)
    if not sym:
        return conc
    r = sym[0] if len(sym) == 1 else z3.Sum(sym)
    return r + conc if conc else r


def in_ranges(c, ranges):
    """c in union of closed code point ranges"""
    if isinstance(c, int):
        return any(lo <= c <= hi for lo, hi in ranges)
    parts = []
    for lo, hi in ranges:
        if lo == hi:
            parts.append(c == lo)
        else:
            parts.append(z3.And(c >= lo, c <= hi))
    return Or(*parts)


def simp(x):
    if isinstance(x, (bool, int)):
        return x
    r = z3.simplify(x)
    if z3.is_true(r):
        return True
    if z3.is_false(r):
        return False
    if z3.is_int_value(r):
        return r.as_long()
    return r


def model_int(m, t):
    if isinstance(t, int):
        return t
    return m.eval(t, model_completion=True).as_long()


def model_bool(m, t):
    if isinstance(t, bool):
        return t
    return z3.is_true(m.eval(t, model_completion=True))
