"""psx - bounded symbolic execution of productmd's real source, decided by z3."""
