"""run the repository's own test-suite with every productmd function body executed by the psx interpreter (concrete values)"""
import os, sys
REPO = os.environ.get("PSX_REPO", "/repo")
HERE = os.path.dirname(os.path.dirname(os.path.abspath(__file__)))
sys.path[:0] = [HERE, REPO]
from psx import interp, stubs, runner
import z3
I = interp.Interp([os.path.join(REPO, "productmd")])
stubs.install(I)
mods = runner.productmd_modules()
I.install_trampolines(mods)
I.solver.push(); I.depth = 1
interp.CURRENT[0] = I
I.options["concrete_io"] = True
import pytest
os.chdir(REPO)
rc = pytest.main(["-q", "-p", "no:cacheprovider", "-x", "--no-header", "-rN"] + sys.argv[1:])
print("interpreted functions:", len(I.stats.functions), "AST steps:", I.stats.steps)
sys.exit(rc)
