"""psx: an AST-driven bounded symbolic executor for the Python subset productmd is written in.

Real objects, real classes, real module state; symbolic leaves (SymStr/SymInt/SymBool/SymFloat).
Functions whose source lives under one of the interpreted roots are executed from their AST;
everything else is a model (psx.models / psx.stubs) or, when no symbolic value is involved, a
native call.  Paths are explored depth-first by re-execution from a decision log; one incremental
solver whose push/pop stack follows the search decides branch feasibility and obligations.
"""
import ast
import builtins
import inspect
import operator
import os
import sys
import time
import types

import z3

from . import sstr
from .sstr import SymStr, SymEscape
from .terms import And, Or, Not, If, Eq, simp, is_true, is_false
from .values import (Control, PathInfeasible, PathCut, Inconclusive, UnsupportedConstruct, BoundExceeded, EngineBug,
                     _Return, _Break, _Continue, SymBool, SymInt, SymFloat, SYM, is_sym, mkbool, mkint, bterm, iterm,
                     pytype, mark, is_program_exc)

TRACE = bool(os.environ.get("PSX_TRACE"))
CURRENT = [None]     # the interpreter that is executing (engine objects reach it through this)
LAZY_GENERATORS = os.environ.get("PSX_EAGER_GENERATORS") != "1"     # generator functions run lazily (LazyGen); the eager fallback collects all yields first
import threading as _threading
_threading.stack_size(256 * 1024 * 1024)     # generator bodies run the (recursive) interpreter in threads of their own


def current():
    return CURRENT[0]


class Closure(object):
    """a function created by interpreted code (lambda / nested def)"""

    def __init__(self, interp, node, frame, defaults, kwdefaults, name):
        self.interp = interp
        self.node = node
        self.frame = frame
        self.defaults = defaults
        self.kwdefaults = kwdefaults
        self.__name__ = name
        self.__qualname__ = name

    def __call__(self, *args, **kwargs):
        return self.interp.run_closure(self, list(args), kwargs)


class Frame(object):
    __slots__ = ("locals", "globals", "parent", "localnames", "cls", "yields", "yield_cb", "name", "globalnames", "lazy")

    def __init__(self, locals_, globals_, parent=None, localnames=None, cls=None, name="?"):
        self.lazy = None
        self.locals = locals_
        self.globals = globals_
        self.parent = parent
        self.localnames = localnames
        self.cls = cls
        self.yields = None
        self.yield_cb = None
        self.name = name
        self.globalnames = ()


class _GenKill(BaseException):
    """unwinds the body of a generator that nobody will resume (its path ended)"""


class LazyGen(object):
    """an interpreted generator function, run lazily as CPython runs it: the body executes in a thread of its own that is handed control
    by next() and hands it back at every yield - never two threads at once, so the interpreter's state needs no locking.  What the
    consumer does between two next() calls is therefore visible to the rest of the body (a generator that yields the sections of a
    document one by one while the consumer fills them in)."""
    psx_engine = True

    def __init__(self, interp, node, fr):
        import threading
        self.I, self.node, self.fr = interp, node, fr
        self.state = "new"
        self.to_gen = threading.Semaphore(0)
        self.to_consumer = threading.Semaphore(0)
        self.value = None
        self.exc = None
        self.killed = False
        self.thread = None
        fr.lazy = self
        interp.live_gens.append(self)

    def psx_symbolic(self):
        return True

    def __iter__(self):
        return self

    def __next__(self):
        import threading
        if self.state == "done":
            raise StopIteration
        if self.state == "running":
            raise ValueError("generator already executing")
        self.state = "running"
        if self.thread is None:
            self.thread = threading.Thread(target=self._run, daemon=True)
            self.thread.start()
        else:
            self.to_gen.release()
        self.to_consumer.acquire()
        CURRENT[0] = self.I
        if self.exc is not None:
            e, self.exc = self.exc, None
            self.state = "done"
            raise e
        if self.state == "done":
            raise StopIteration
        return self.value

    next = __next__

    def emit(self, v):
        self.value = v
        self.state = "suspended"
        self.to_consumer.release()
        self.to_gen.acquire()
        if self.killed:
            raise _GenKill()
        return None

    def _run(self):
        try:
            for st in self.node.body:
                self.I.ex(st, self.fr)
        except _Return:
            pass
        except _GenKill:
            pass
        except BaseException as e:          # program exceptions and engine signals alike: they surface in the consumer
            self.exc = e
        finally:
            self.state = "done"
            self.to_consumer.release()

    def close(self):
        if self.thread is not None and self.thread.is_alive() and self.state == "suspended":
            self.killed = True
            self.to_gen.release()
            self.thread.join(5)
        self.state = "done"


class FuncInfo(object):
    __slots__ = ("node", "localnames", "is_gen", "globalnames", "file")


def _collect_locals(node):
    """names that are local to a function body (assignment targets etc.), Python scoping rules"""
    names = set()
    globs = set()
    is_gen = [False]

    def targets(t):
        if isinstance(t, ast.Name):
            names.add(t.id)
        elif isinstance(t, (ast.Tuple, ast.List)):
            for x in t.elts:
                targets(x)
        elif isinstance(t, ast.Starred):
            targets(t.value)

    def walk(n, top):
        for ch in ast.iter_child_nodes(n):
            if isinstance(ch, (ast.FunctionDef, ast.AsyncFunctionDef, ast.ClassDef)):
                names.add(ch.name)
                continue
            if isinstance(ch, ast.Lambda):
                continue
            if isinstance(ch, (ast.ListComp, ast.SetComp, ast.DictComp, ast.GeneratorExp)):
                # own scope, except the first iterable and walrus targets; yields inside do not count
                for sub in ast.walk(ch):
                    if isinstance(sub, ast.NamedExpr):
                        targets(sub.target)
                continue
            if isinstance(ch, (ast.Yield, ast.YieldFrom)):
                is_gen[0] = True
            if isinstance(ch, ast.Assign):
                for t in ch.targets:
                    targets(t)
            elif isinstance(ch, (ast.AugAssign, ast.AnnAssign)):
                targets(ch.target)
            elif isinstance(ch, (ast.For, ast.AsyncFor)):
                targets(ch.target)
            elif isinstance(ch, (ast.With, ast.AsyncWith)):
                for it in ch.items:
                    if it.optional_vars is not None:
                        targets(it.optional_vars)
            elif isinstance(ch, ast.ExceptHandler):
                if ch.name:
                    names.add(ch.name)
            elif isinstance(ch, (ast.Import, ast.ImportFrom)):
                for al in ch.names:
                    names.add((al.asname or al.name).split(".")[0])
            elif isinstance(ch, ast.Global):
                globs.update(ch.names)
            elif isinstance(ch, ast.NamedExpr):
                targets(ch.target)
            elif isinstance(ch, ast.Delete):
                for t in ch.targets:
                    targets(t)
            walk(ch, False)
    walk(node, True)
    a = node.args
    for x in a.posonlyargs + a.args + a.kwonlyargs:
        names.add(x.arg)
    if a.vararg:
        names.add(a.vararg.arg)
    if a.kwarg:
        names.add(a.kwarg.arg)
    return names - globs, globs, is_gen[0]


_BINOPS = {
    ast.Add: operator.add, ast.Sub: operator.sub, ast.Mult: operator.mul, ast.Div: operator.truediv,
    ast.FloorDiv: operator.floordiv, ast.Mod: operator.mod, ast.Pow: operator.pow, ast.BitOr: operator.or_,
    ast.BitAnd: operator.and_, ast.BitXor: operator.xor, ast.LShift: operator.lshift, ast.RShift: operator.rshift,
    ast.MatMult: operator.matmul,
}
_CMPOPS = {ast.Lt: operator.lt, ast.LtE: operator.le, ast.Gt: operator.gt, ast.GtE: operator.ge}


class Stats(object):
    def __init__(self):
        self.solver_calls = 0
        self.solver_time = 0.0
        self.max_query = 0.0
        self.steps = 0
        self.on_demand = set()
        self.unknown = 0
        self.functions = {}      # qualified name -> file
        self.patterns = set()
        self.models_used = set()
        self.cuts = {}
        self.model_hits = 0
        self.canon_slices = 0
        self.distinct_queries = set()
        self.fresh_solver_calls = 0


class Interp(object):
    def __init__(self, roots, solver_timeout_ms=60000, trampolines=True):
        self.roots = [os.path.realpath(r) + ("" if r.endswith(".py") else os.sep) for r in roots]
        self.allow = {}           # id(function) -> function  (stdlib functions interpreted from their source)
        self._files = {}
        self._info = {}
        self.stats = Stats()
        self.path_steps = 0
        self.charges = []          # value-dependent cost charged on this path: (z3 Int term or int, description)  (psx/numerics.py)
        self.step_limit = None
        self.solver = z3.Solver()
        self.soft_timeout_ms = min(solver_timeout_ms, int(os.environ.get("PSX_SOFT_TIMEOUT_MS", "20000")))
        self.hard_timeout_ms = solver_timeout_ms
        self.solver.set("timeout", self.soft_timeout_ms)
        self.solver_timeout_ms = solver_timeout_ms
        self.base_constraints = []
        self.log = []             # decision log: [alternatives(list), index]
        self.pos = 0
        self.depth = 0            # solver frames pushed for decisions
        self.keep = 0             # decisions whose constraints are still on the solver stack (replay prefix)
        self.pc = []
        self.options = {"set_order": "natural"}
        self.deadline = None
        self.budget_exhausted = False
        self.path_hooks = []
        self.live_gens = []          # lazily run generator functions of the current path (closed when the path ends)
        self.fresh_mode = False
        self.in_prefix = False
        self._oracle = {}
        self._oseq = 0
        self.model = None
        self.flush_hook = None
        self.int_bounds = {}
        self.render_cache = {}
        self.serials = {}
        self._keepalive = []
        self.set_orders = {}
        self._ex = {}
        self._ev = {}
        for name in dir(self):
            if name.startswith("ex_"):
                self._ex[getattr(ast, name[3:])] = getattr(self, name)
            elif name.startswith("ev_"):
                self._ev[getattr(ast, name[3:])] = getattr(self, name)
        from . import models
        self.models = models
        models.install(self)
        self._tramp = trampolines

    # ------------------------------------------------------------------------------------------
    # solver / path exploration
    def _check(self, *extra):
        """(verdict, model) of the current path condition plus `extra`.

        Normally one incremental solver whose push/pop stack follows the search.  If a query exceeds the soft limit
        there (large regex encodings can stall z3's incremental core even on easy instances), the job switches to
        *fresh mode*: every later query is decided by a new, non-incremental solver given the whole path condition."""
        t = time.time()
        if self.deadline is not None and t > self.deadline:
            raise Inconclusive("time budget exhausted")
        st = self.stats
        r = None
        m = None
        if not self.fresh_mode:
            self.solver.push()
            try:
                for e in extra:
                    self.solver.add(e if not isinstance(e, bool) else z3.BoolVal(e))
                if os.environ.get("PSX_DUMPQ"):
                    Interp._dumpn = getattr(Interp, "_dumpn", 0) + 1
                    with open(os.path.join(os.environ["PSX_DUMPQ"], "f%03d.smt2" % Interp._dumpn), "w") as fh:
                        fh.write(self.solver.to_smt2())
                r = str(self.solver.check())
                m = self.solver.model() if r == "sat" else None
                if r == "unknown":
                    st.unknown += 1
                    self.fresh_mode = True          # never touch the incremental solver again
                else:
                    self.solver.pop()
            except z3.Z3Exception:
                self.fresh_mode = True
                r = "unknown"
        if self.fresh_mode and (r is None or r == "unknown"):
            s2 = z3.Solver()
            s2.set("timeout", self.hard_timeout_ms)
            for c in self.pc:
                s2.add(c if not isinstance(c, bool) else z3.BoolVal(c))
            for e in extra:
                s2.add(e if not isinstance(e, bool) else z3.BoolVal(e))
            r = str(s2.check())
            m = s2.model() if r == "sat" else None
            st.fresh_solver_calls += 1
        dt = time.time() - t
        st.solver_calls += 1
        st.solver_time += dt
        if dt > st.max_query:
            st.max_query = dt
        if r == "unknown":
            st.unknown += 1
        for e in extra:
            if not isinstance(e, bool):
                try:
                    st.distinct_queries.add((e.hash(), len(self.pc)))
                except Exception:
                    pass
        if TRACE:
            sys.stderr.write("[psx] query #%d depth=%d pos=%d %s %.3fs%s\n" % (st.solver_calls, self.depth, self.pos, r, dt, " (fresh)" if self.fresh_mode else ""))
        return r, m

    def _spush(self):
        if not self.fresh_mode:
            self.solver.push()

    def _spop(self):
        if not self.fresh_mode:
            self.solver.pop()

    def _sadd(self, c):
        if not self.fresh_mode:
            self.solver.add(c if not isinstance(c, bool) else z3.BoolVal(c))

    def holds(self, t):
        """value of a Bool term in the cached model of the current path (None when unknown)"""
        if isinstance(t, bool):
            return t
        m = self.model
        if m is None:
            return None
        v = m.eval(t, model_completion=True)
        if z3.is_true(v):
            self.stats.model_hits += 1
            return True
        if z3.is_false(v):
            return False
        return None

    def feasible_m(self, cond):
        """(feasible?, model) - answered from the cached model when it already satisfies cond"""
        if cond is True:
            return True, self.model
        if cond is False:
            return False, None
        if self.holds(cond) is True:
            return True, self.model
        r, m = self._check(cond)
        if r == "unknown":
            raise Inconclusive("solver returned unknown on a path-feasibility query")
        return r == "sat", m

    def feasible(self, cond):
        return self.feasible_m(cond)[0]

    def _flush(self):
        if self.flush_hook is not None and not self.in_prefix:
            self.flush_hook()

    def _replay_entry(self):
        ent = self.log[self.pos]
        take = ent[0][ent[1]]
        if self.pos == self.keep:
            # the decision being flipped: the model found when this alternative was shown feasible is valid here
            self.model = ent[2].get(take) if ent[2] else None
        return take

    def decide(self, cond, label=None):
        """fork on a Bool term; returns the Python bool taken on this path"""
        if isinstance(cond, bool):
            return cond
        cond = simp(cond)
        if isinstance(cond, bool):
            return cond
        if self.pos < len(self.log):
            take = self._replay_entry()
        else:
            self._flush()
            t, mt = self.feasible_m(cond)
            f, mf = self.feasible_m(z3.Not(cond))
            if not t and not f:
                raise PathInfeasible()
            alts = [x for x, ok in ((True, t), (False, f)) if ok]
            self.log.append([alts, 0, {True: mt, False: mf}])
            take = alts[0]
            self.model = mt if take else mf
        self._enter_decision(cond if take else z3.Not(cond))
        return take

    def choose(self, n, label=None):
        """pure n-way nondeterministic choice (no solver involvement)"""
        if n <= 0:
            raise PathInfeasible()
        if self.pos < len(self.log):
            ent = self.log[self.pos]
            take = ent[0][ent[1]]
            if self.pos == self.keep:
                self.model = ent[2].get("m") if ent[2] else None
        else:
            self._flush()
            self.log.append([list(range(n)), 0, {"m": self.model}])
            take = 0
        self._enter_decision(True)
        return take

    def choose_feasible(self, conds):
        """fork over the feasible members of a list of Bool terms; returns the index taken"""
        if self.pos < len(self.log):
            take = self._replay_entry()
        else:
            self._flush()
            alts = []
            ms = {}
            for i, c in enumerate(conds):
                ok, m = self.feasible_m(c)
                if ok:
                    alts.append(i)
                    ms[i] = m
            if not alts:
                raise PathInfeasible()
            self.log.append([alts, 0, ms])
            take = alts[0]
            self.model = ms[take]
        self._enter_decision(conds[take])
        return take

    def oracle(self, fn):
        """memoise a solver-dependent engine decision so that re-execution of a path prefix sees the same answer"""
        key = (tuple(e[1] for e in self.log[:self.pos]), self.pos, self._oseq)
        self._oseq += 1
        if key in self._oracle:
            return self._oracle[key]
        if self.in_prefix:
            raise EngineBug("oracle value missing while replaying a prefix")
        self._flush()
        v = fn()
        self._oracle[key] = v
        return v

    def tight_bound(self, term, hi):
        """smallest B <= hi such that term <= B on every model of the current path (binary search)"""
        def search():
            lo, up = 0, hi
            if not self.feasible(term > lo):
                return 0
            # invariant: term > lo feasible, term > up infeasible
            while up - lo > 1:
                mid = (lo + up) // 2
                if self.feasible(term > mid):
                    lo = mid
                else:
                    up = mid
            return up
        return self.oracle(search)

    def _enter_decision(self, constraint):
        """decision number self.pos+1 was taken; frames 0..keep are still on the solver stack"""
        self.pos += 1
        self._oseq = 0
        if constraint is not True:
            self.pc.append(constraint)
        if self.pos <= self.keep:
            return                      # replaying the retained prefix
        self.in_prefix = False
        self._spush()
        self.depth += 1
        if constraint is not True:
            self._sadd(constraint)

    def assume(self, cond):
        if isinstance(cond, SymBool):
            cond = cond.t
        if cond is True:
            return
        if cond is False:
            raise PathInfeasible()
        cond = simp(cond)
        if cond is True:
            return
        if cond is False:
            raise PathInfeasible()
        if self.in_prefix:
            self.pc.append(cond)
            return
        self._flush()
        ok, m = self.feasible_m(cond)
        if not ok:
            raise PathInfeasible()
        self.model = m
        self.pc.append(cond)
        self._sadd(cond)

    def add_side(self, cons):
        """definitional constraints of fresh variables (never make a path infeasible)"""
        if not cons:
            return
        if self.in_prefix:
            self.pc.extend(cons)
            return
        self._flush()
        for c in cons:
            self.pc.append(c)
            self._sadd(c)
            if self.model is not None and self.holds(c) is not True:
                self.model = None

    def cut(self, cond, reason):
        """restrict the path to `cond`; what is excluded is recorded as outside the claim"""
        if isinstance(cond, SymBool):
            cond = cond.t
        if not self.in_prefix and not isinstance(cond, bool):
            self._flush()
            if self.feasible(z3.Not(cond)):        # only count cuts that really exclude something
                self.stats.cuts[reason] = self.stats.cuts.get(reason, 0) + 1
        try:
            self.assume(cond)
        except PathInfeasible:
            raise PathCut(reason)

    def explore(self, thunk, on_path=None, max_paths=None):
        """run thunk() on every feasible path.  on_path(outcome) is called at the end of each path while the
        path condition is still asserted on the solver."""
        self.log = []
        self.keep = 0
        self.depth = 0          # solver frames above the base: frame 0 (pre-decision) + one per decision
        npaths = 0
        while True:
            if npaths == 0:
                self._spush()
                self.depth = 1
                self.in_prefix = False
            else:
                while self.depth > self.keep + 1:
                    self._spop()
                    self.depth -= 1
                self.in_prefix = True
            self.pos = 0
            self.path_steps = 0
            for g in self.live_gens:
                g.close()
            self.live_gens = []
            self.charges = []
            self.step_limit = None
            self._oseq = 0
            self.pc = []
            self.model = None
            self.render_cache = {}
            self.serials = {}
            self._keepalive = []
            self.set_orders = {}
            sstr._fresh[0] = 0
            sstr.BOUND_ORACLE[0] = self.tight_bound
            self.options.pop("fs", None)
            self.options.pop("approximate_numerics", None)
            self.options.pop("symfiles", None)
            for h in self.path_hooks:
                h()
            outcome = None
            CURRENT[0] = self
            try:
                try:
                    outcome = ("ok", thunk())
                except Control:
                    raise
                except SymEscape as e:
                    import traceback
                    raise EngineBug("symbolic value escaped: %s\n%s" % (e, traceback.format_exc()[-1500:]))
                except RecursionError as e:
                    raise EngineBug("recursion limit")
                except Exception as e:
                    if not is_program_exc(e):
                        import traceback
                        raise EngineBug("engine failure: %s: %s\n%s" % (type(e).__name__, e, traceback.format_exc())) from e
                    outcome = ("exc", e)
            except PathInfeasible:
                outcome = ("infeasible", None)
            except PathCut as e:
                outcome = ("cut", e.reason)
            except Inconclusive as e:
                outcome = ("inconclusive", e.reason)
            except BoundExceeded as e:
                outcome = ("bound", e.reason)
            except UnsupportedConstruct as e:
                outcome = ("unsupported", e.reason)
                if os.environ.get("PSX_DEBUG"):
                    import traceback
                    sys.stderr.write("[psx] UNSUPPORTED: %s\n%s\n" % (e.reason, "".join(traceback.format_tb(e.__traceback__)[-6:])))
            except EngineBug as e:
                outcome = ("enginebug", e.reason)
                if os.environ.get("PSX_DEBUG"):
                    sys.stderr.write("[psx] ENGINE BUG: %s\n" % e.reason)
            npaths += 1
            if outcome[0] in ("ok", "exc"):
                try:
                    self._flush()
                except Inconclusive as e:
                    outcome = ("inconclusive", e.reason)
            if on_path is not None:
                on_path(outcome)
            if self.deadline is not None and time.time() > self.deadline:
                # the job's wall-clock budget is used up: stop here; the runner reports the job as not exhausted (exit 2)
                while self.depth > 0:
                    self._spop()
                    self.depth -= 1
                self.keep = 0
                CURRENT[0] = None
                self.budget_exhausted = True
                return npaths
            # backtrack: drop exhausted decisions, advance the last open one
            while self.log and self.log[-1][1] + 1 >= len(self.log[-1][0]):
                self.log.pop()
            if not self.log or (max_paths is not None and npaths >= max_paths):
                while self.depth > 0:
                    self._spop()
                    self.depth -= 1
                self.keep = 0
                CURRENT[0] = None
                return npaths
            self.log[-1][1] += 1
            self.keep = len(self.log) - 1

    # ------------------------------------------------------------------------------------------
    # source lookup
    def interpretable_file(self, fn):
        if not fn or fn.startswith("<"):
            return False
        rp = fn if fn.startswith("/") else os.path.realpath(fn)
        for r in self.roots:
            if rp.startswith(r) or rp + os.sep == r or rp == r.rstrip(os.sep):
                return True
        return False

    def _load_file(self, fn):
        if fn in self._files:
            return self._files[fn]
        with open(fn) as f:
            src = f.read()
        tree = ast.parse(src, fn)
        idx = {}
        for n in ast.walk(tree):
            if isinstance(n, (ast.FunctionDef, ast.AsyncFunctionDef)):
                first = n.decorator_list[0].lineno if n.decorator_list else n.lineno
                idx[(first, n.name)] = n
                idx[(n.lineno, n.name)] = n
            elif isinstance(n, ast.Lambda):
                idx.setdefault((n.lineno, "<lambda>"), n)
        self._files[fn] = idx
        return idx

    def func_info(self, f):
        """FuncInfo for a Python function object if it is to be interpreted, else None"""
        f = getattr(f, "__psx_orig__", f)
        code = getattr(f, "__code__", None)
        if code is None:
            return None
        key = id(code)
        if key in self._info:
            return self._info[key]
        info = None
        if self.interpretable_file(code.co_filename) or id(f) in self.allow:
            idx = self._load_file(code.co_filename)
            node = idx.get((code.co_firstlineno, code.co_name))
            if node is not None:
                info = self._mk_info(node, code.co_filename)
        self._info[key] = info
        return info

    def _mk_info(self, node, file):
        info = FuncInfo()
        info.node = node
        info.file = file
        if isinstance(node, ast.Lambda):
            a = node.args
            info.localnames = set(x.arg for x in a.posonlyargs + a.args + a.kwonlyargs)
            if a.vararg:
                info.localnames.add(a.vararg.arg)
            if a.kwarg:
                info.localnames.add(a.kwarg.arg)
            info.globalnames = set()
            info.is_gen = False
        else:
            info.localnames, info.globalnames, info.is_gen = _collect_locals(node)
        return info

    def serial(self, obj):
        """creation order of an object on the current path (deterministic across re-executions)"""
        k = id(obj)
        n = self.serials.get(k)
        if n is None:
            n = len(self.serials)
            self.serials[k] = n
            self._keepalive.append(obj)
        return n

    def allow_stdlib(self, *funcs):
        for f in funcs:
            f = getattr(f, "__func__", f)
            self.allow[id(f)] = f

    def allow_on_demand(self, f):
        """last resort before 'no model': a pure-Python function outside the interpreted roots (stdlib, six) that is called
        with symbolic data is interpreted from its own source.  Whatever it needs below is subject to the same rules, so a
        function that depends on C internals still ends the path as unsupported.  Recorded in stats.on_demand."""
        f = getattr(f, "__func__", f)
        code = getattr(f, "__code__", None)
        if not isinstance(f, types.FunctionType) or code is None:
            return False
        fn = code.co_filename
        if not fn.endswith(".py") or os.sep + "psx" + os.sep in fn or not os.path.exists(fn):
            return False
        if id(f) not in self.allow:
            self.allow[id(f)] = f
            self._info.pop(id(code), None)
        if self.func_info(f) is None:
            return False
        self.stats.on_demand.add("%s.%s" % (getattr(f, "__module__", "?"), getattr(f, "__qualname__", f.__name__)))
        return True

    # ------------------------------------------------------------------------------------------
    # trampolines: make native callers of productmd functions re-enter the interpreter
    def install_trampolines(self, modules):
        interp = self
        done = set()

        def wrap(f):
            if getattr(f, "__psx_orig__", None) is not None:
                return f
            info = interp.func_info(f)
            if info is None or info.is_gen or getattr(f, "__wrapped__", None) is not None:
                return f

            def tramp(*a, **k):
                if CURRENT[0] is None:
                    return f(*a, **k)
                r = interp.call_function(f, list(a), k)
                if f.__name__ in ("__str__", "__repr__", "__len__", "__bool__", "__hash__", "__iter__", "__contains__") \
                        and is_sym(r):
                    raise SymEscape("%s returned a symbolic value to native code" % f.__qualname__)
                return r
            tramp.__psx_orig__ = f
            tramp.__name__ = f.__name__
            tramp.__qualname__ = f.__qualname__
            tramp.__doc__ = f.__doc__
            tramp.__module__ = f.__module__
            tramp.__defaults__ = None
            return tramp

        def patch_class(cls):
            if cls in done:
                return
            done.add(cls)
            for name, v in list(vars(cls).items()):
                if isinstance(v, types.FunctionType):
                    w = wrap(v)
                    if w is not v:
                        setattr(cls, name, w)
                elif isinstance(v, property):
                    fg = wrap(v.fget) if v.fget else None
                    fs = wrap(v.fset) if v.fset else None
                    fd = wrap(v.fdel) if v.fdel else None
                    if fg is not v.fget or fs is not v.fset or fd is not v.fdel:
                        setattr(cls, name, property(fg, fs, fd, v.__doc__))
                elif isinstance(v, staticmethod):
                    w = wrap(v.__func__)
                    if w is not v.__func__:
                        setattr(cls, name, staticmethod(w))
                elif isinstance(v, classmethod):
                    w = wrap(v.__func__)
                    if w is not v.__func__:
                        setattr(cls, name, classmethod(w))

        for mod in modules:
            for name, v in list(vars(mod).items()):
                if isinstance(v, types.FunctionType) and self.interpretable_file(v.__code__.co_filename):
                    w = wrap(v)
                    if w is not v:
                        setattr(mod, name, w)
                elif isinstance(v, type) and self.interpretable_file(getattr(sys.modules.get(v.__module__), "__file__", "") or ""):
                    patch_class(v)

    # ------------------------------------------------------------------------------------------
    # errors
    def unsupported(self, what, node=None):
        loc = ""
        if node is not None and hasattr(node, "lineno"):
            loc = " (line %s)" % node.lineno
        raise UnsupportedConstruct("%s%s" % (what, loc))

    def raise_(self, exc):
        raise mark(exc)

    def native(self, fn, *args, **kwargs):
        """run a real CPython operation on concrete values; its exceptions are the program's"""
        try:
            return fn(*args, **kwargs)
        except Control:
            raise
        except SymEscape:
            raise
        except Exception as e:
            if isinstance(e, RecursionError):
                raise
            raise mark(e)

    # ------------------------------------------------------------------------------------------
    # truthiness, equality, ordering
    def truth_term(self, v):
        """bool or Bool term for truthiness when it can be had without forking, else None"""
        if isinstance(v, bool):
            return v
        if isinstance(v, SymBool):
            return v.t
        if isinstance(v, SymInt):
            return v.t != 0
        if isinstance(v, SymFloat):
            return v.t != 0
        if isinstance(v, SymStr):
            return v.nonempty()
        if v is None or isinstance(v, (int, float, str, list, tuple, dict, set, frozenset, bytes)):
            return bool(v)
        return None

    def truth(self, v):
        t = self.truth_term(v)
        if t is not None:
            return self.decide(t)
        if hasattr(type(v), "psx_truth"):
            return self.truth(v.psx_truth())
        return self.obj_truth(v)

    def obj_truth(self, v):
        cls = type(v)
        for k in cls.__mro__:
            d = k.__dict__
            if "__bool__" in d:
                r = self.call(getattr(v, "__bool__"), [], {})
                return self.truth(r)
            if "__len__" in d:
                r = self.call(getattr(v, "__len__"), [], {})
                return self.truth(self.ne(r, 0))
        return self.native(bool, v)

    def eq(self, a, b):
        """a == b as a Python bool or SymBool"""
        if a is b and not isinstance(a, float):
            return True
        if hasattr(type(a), "psx_eq"):
            return a.psx_eq(b)
        if hasattr(type(b), "psx_eq"):
            return b.psx_eq(a)
        sa, sb = isinstance(a, SYM), isinstance(b, SYM)
        if not sa and not sb:
            if isinstance(a, (list, tuple, dict)) and type(a) is type(b) or \
                    (isinstance(a, (list, tuple, dict)) and isinstance(b, (list, tuple, dict)) and
                     isinstance(a, (list,)) == isinstance(b, (list,)) and isinstance(a, dict) == isinstance(b, dict)):
                if self.models.contains_sym(a) or self.models.contains_sym(b):
                    return self.struct_eq(a, b)
            return self.obj_eq(a, b)
        ta, tb = pytype(a), pytype(b)
        if ta is str or tb is str:
            if not (issubclass(ta, str) and issubclass(tb, str)):
                return False
            a, b = self._canon_pair(a, b)
            return mkbool(sstr.str_eq(a, b))
        num = (int, bool, float)
        if issubclass(ta, num) and issubclass(tb, num):
            if isinstance(a, float) or isinstance(b, float):
                other = a if isinstance(b, float) else b
                fl = b if isinstance(b, float) else a
                if isinstance(fl, float) and fl != fl:
                    return False
                if isinstance(fl, float) and fl == int(fl):
                    return mkbool(Eq(self._num(other), int(fl)))
                if isinstance(fl, float):
                    return False
            return mkbool(Eq(self._num(a), self._num(b)))
        return False

    def _canon_pair(self, a, b):
        """a slice compared with (part of) the rope it was cut from: try to prove it *is* those segments"""
        for x, y in ((a, b), (b, a)):
            if isinstance(x, SymStr) and len(x.segs) == 1 and x.segs[0].view is not None and x is not y:
                base = x.segs[0].view[0]
                oats = [sg for sg, _ in base.origin if not isinstance(sg, str)]
                yats = [sg for sg in y.segs if not isinstance(sg, str)] if isinstance(y, SymStr) else []
                if isinstance(y, str) or all(any(t is o for o in oats) for t in yats):
                    cx = self.models.canon_slice(self, x)
                    if x is a:
                        a = cx
                    else:
                        b = cx
        return a, b

    def _num(self, v):
        if isinstance(v, SymFloat):
            return v.t
        return iterm(v)

    def obj_eq(self, a, b):
        try:
            return self.native(operator.eq, a, b)
        except SymEscape:
            return self.struct_eq(a, b)

    def struct_eq(self, a, b):
        if isinstance(a, dict) and isinstance(b, dict):
            if len(a) != len(b):
                return False
            SK = self.models.SymKey
            if any(isinstance(k, SK) for k in a) or any(isinstance(k, SK) for k in b):
                # keys with symbolic text: every key of a has a partner in b with equal text and equal value
                # (keys of one dict are pairwise different, so equal sizes make this a bijection)
                parts = []
                for ka in a:
                    alts = []
                    for kb in b:
                        ke = self.eq(ka, kb)
                        if ke is False:
                            continue
                        ve = self.eq(a[ka], b[kb])
                        if ve is False:
                            continue
                        alts.append(And(bterm(ke), bterm(ve)))
                    if not alts:
                        return False
                    parts.append(mkbool(Or(*alts)))
            else:
                parts = []
                for k in a:
                    if k not in b:
                        return False
                    parts.append(self.eq(a[k], b[k]))
        elif isinstance(a, (list, tuple)) and isinstance(b, (list, tuple)) and isinstance(a, list) == isinstance(b, list):
            if len(a) != len(b):
                return False
            parts = [self.eq(x, y) for x, y in zip(a, b)]
        else:
            return self.eq(a, b)
        terms = []
        for p in parts:
            if p is False:
                return False
            if p is True:
                continue
            terms.append(bterm(p))
        return mkbool(And(*terms))

    def ne(self, a, b):
        return self.not_(self.eq(a, b))

    def not_(self, v):
        if isinstance(v, SymBool):
            return mkbool(Not(v.t))
        if isinstance(v, bool):
            return not v
        t = self.truth_term(v)
        if t is not None:
            return mkbool(Not(t))
        return not self.truth(v)

    def order(self, op, a, b):
        """a < b etc."""
        if isinstance(a, self.models.SymKey):
            a = a.s
        if isinstance(b, self.models.SymKey):
            b = b.s
        sa, sb = isinstance(a, SYM), isinstance(b, SYM)
        if not sa and not sb:
            if isinstance(a, (tuple, list)) and isinstance(b, (tuple, list)) and type(a) is type(b) and \
                    (self.models.contains_sym(a) or self.models.contains_sym(b)):
                return self.seq_order(op, a, b)
            return self.native(_CMPOPS[op], a, b)
        ta, tb = pytype(a), pytype(b)
        if issubclass(ta, str) and issubclass(tb, str):
            A, B = sstr.as_atom(a), sstr.as_atom(b)
            if op is ast.Lt:
                return mkbool(A.lt(B))
            if op is ast.Gt:
                return mkbool(B.lt(A))
            if op is ast.LtE:
                return mkbool(Not(B.lt(A)))
            return mkbool(Not(A.lt(B)))
        num = (int, bool, float)
        if issubclass(ta, num) and issubclass(tb, num):
            if isinstance(a, float) or isinstance(b, float):
                self.unsupported("ordering of a symbolic number and a float")
            x, y = self._num(a), self._num(b)
            return mkbool({ast.Lt: x < y, ast.LtE: x <= y, ast.Gt: x > y, ast.GtE: x >= y}[op])
        self.raise_(TypeError("'%s' not supported between instances of '%s' and '%s'" % (
            {ast.Lt: "<", ast.LtE: "<=", ast.Gt: ">", ast.GtE: ">="}[op], ta.__name__, tb.__name__)))

    def seq_order(self, op, a, b):
        """lexicographic comparison of sequences with symbolic elements, as one merged term"""
        n = min(len(a), len(b))
        strict = op in (ast.Lt, ast.Gt)
        lt = ast.Lt if op in (ast.Lt, ast.LtE) else ast.Gt
        # tail result when all compared elements are equal
        if op in (ast.Lt, ast.LtE):
            r = (len(a) < len(b)) if strict else (len(a) <= len(b))
        else:
            r = (len(a) > len(b)) if strict else (len(a) >= len(b))
        for k in range(n - 1, -1, -1):
            e = self.eq(a[k], b[k])
            l = self.order(lt, a[k], b[k])
            et = bterm(e)
            ltm = bterm(l)
            r = If(et, r, ltm)
        return mkbool(r)

    # ------------------------------------------------------------------------------------------
    # calls
    def _step(self):
        self.path_steps += 1
        if self.deadline is not None and (self.path_steps & 4095) == 0 and time.time() > self.deadline:
            raise Inconclusive("time budget exhausted (after %d steps on this path)" % self.path_steps)
        if self.step_limit is not None and self.path_steps > self.step_limit:
            lim, self.step_limit = self.step_limit, None
            from .values import CostLimitExceeded
            self.raise_(CostLimitExceeded("more than %d steps" % lim))

    def call(self, f, args, kwargs=None):
        kwargs = kwargs or {}
        self.stats.steps += 1
        self._step()
        if isinstance(f, Closure):
            return self.run_closure(f, args, kwargs)
        if isinstance(f, types.MethodType):
            fn = f.__func__
            if isinstance(fn, Closure):
                return self.run_closure(fn, [f.__self__] + list(args), kwargs)
            info = self.func_info(fn)
            if info is not None:
                return self.run_function(getattr(fn, "__psx_orig__", fn), info, [f.__self__] + list(args), kwargs)
            return self.models.call_native_method(self, f, args, kwargs)
        if isinstance(f, types.FunctionType):
            info = self.func_info(f)
            if info is not None:
                return self.run_function(getattr(f, "__psx_orig__", f), info, list(args), kwargs)
        return self.models.call_other(self, f, args, kwargs)

    def call_function(self, f, args, kwargs):
        """entry used by trampolines"""
        info = self.func_info(f)
        return self.run_function(f, info, args, kwargs)

    def bind(self, node, args, kwargs, defaults, kwdefaults, fname):
        a = node.args
        env = {}
        params = [x.arg for x in a.posonlyargs + a.args]
        npos = len(params)
        args = list(args)
        if len(args) > npos and not a.vararg:
            self.raise_(TypeError("%s() takes %d positional arguments but %d were given" % (fname, npos, len(args))))
        for i, name in enumerate(params):
            if i < len(args):
                env[name] = args[i]
        if a.vararg:
            env[a.vararg.arg] = tuple(args[npos:])
        extra = {}
        posonly = set(x.arg for x in a.posonlyargs)
        kwonly = [x.arg for x in a.kwonlyargs]
        for k, v in kwargs.items():
            if (k in params and k not in posonly) or k in kwonly:
                if k in env:
                    self.raise_(TypeError("%s() got multiple values for argument '%s'" % (fname, k)))
                env[k] = v
            elif a.kwarg:
                extra[k] = v
            else:
                self.raise_(TypeError("%s() got an unexpected keyword argument '%s'" % (fname, k)))
        if a.kwarg:
            env[a.kwarg.arg] = extra
        defaults = defaults or ()
        nd = len(defaults)
        for i, name in enumerate(params):
            if name not in env:
                j = i - (npos - nd)
                if j >= 0:
                    env[name] = defaults[j]
                else:
                    self.raise_(TypeError("%s() missing required positional argument: '%s'" % (fname, name)))
        for name in kwonly:
            if name not in env:
                if kwdefaults and name in kwdefaults:
                    env[name] = kwdefaults[name]
                else:
                    self.raise_(TypeError("%s() missing required keyword-only argument: '%s'" % (fname, name)))
        return env

    def defining_class(self, f):
        qn = getattr(f, "__qualname__", "")
        parts = qn.split(".")[:-1]
        if not parts or "<locals>" in parts:
            return None
        o = f.__globals__.get(parts[0])
        for p in parts[1:]:
            o = getattr(o, p, None)
        return o if isinstance(o, type) else None

    def run_function(self, f, info, args, kwargs):
        node = info.node
        qn = "%s.%s" % (f.__module__, f.__qualname__)
        if qn not in self.stats.functions:
            self.stats.functions[qn] = info.file
        if isinstance(node, ast.Lambda):
            env = self.bind(node, args, kwargs, f.__defaults__, f.__kwdefaults__, "<lambda>")
            fr = Frame(env, f.__globals__, self._closure_frame(f), info.localnames, None, "<lambda>")
            return self.ev(node.body, fr)
        env = self.bind(node, args, kwargs, f.__defaults__, f.__kwdefaults__, f.__name__)
        fr = Frame(env, f.__globals__, self._closure_frame(f), info.localnames, self.defining_class(f), f.__name__)
        fr.globalnames = info.globalnames
        return self._run_body(node, fr, info.is_gen)

    def _closure_frame(self, f):
        cl = getattr(f, "__closure__", None)
        if not cl:
            return None
        names = f.__code__.co_freevars
        env = {}
        for n, c in zip(names, cl):
            try:
                env[n] = c.cell_contents
            except ValueError:
                pass
        if "__class__" in env and len(env) == 1:
            return None
        return Frame(env, f.__globals__, None, None, None, "<cells>")

    def run_closure(self, c, args, kwargs):
        node = c.node
        CURRENT[0] = self
        env = self.bind(node, args, kwargs, c.defaults, c.kwdefaults, c.__name__)
        info = self._info.get(id(node))
        if info is None:
            info = self._mk_info(node, "<closure>")
            self._info[id(node)] = info
        fr = Frame(env, c.frame.globals, c.frame, info.localnames, c.frame.cls, c.__name__)
        fr.globalnames = info.globalnames
        if isinstance(node, ast.Lambda):
            return self.ev(node.body, fr)
        return self._run_body(node, fr, info.is_gen)

    def _run_body(self, node, fr, is_gen):
        if is_gen and LAZY_GENERATORS:
            return LazyGen(self, node, fr)
        if is_gen:
            fr.yields = []
        try:
            for st in node.body:
                self.ex(st, fr)
        except _Return as r:
            if is_gen:
                return iter(fr.yields)
            return r.v
        if is_gen:
            return iter(fr.yields)
        return None

    # ------------------------------------------------------------------------------------------
    # statements
    def ex(self, st, fr):
        self.stats.steps += 1
        self._step()
        h = self._ex.get(type(st))
        if h is None:
            self.unsupported("statement %s" % type(st).__name__, st)
        h(st, fr)

    def ex_Expr(self, st, fr):
        self.ev(st.value, fr)

    def ex_Pass(self, st, fr):
        pass

    def ex_Assign(self, st, fr):
        v = self.ev(st.value, fr)
        for t in st.targets:
            self.assign(t, v, fr)

    def ex_AnnAssign(self, st, fr):
        if st.value is not None:
            self.assign(st.target, self.ev(st.value, fr), fr)

    def ex_AugAssign(self, st, fr):
        t = st.target
        if isinstance(t, ast.Name):
            cur = self.load_name(t.id, fr)
            val = self.ev(st.value, fr)
            self.store_name(t.id, self.binop(st.op, cur, val, inplace=True), fr)
        elif isinstance(t, ast.Attribute):
            o = self.ev(t.value, fr)
            cur = self.get_attr(o, t.attr)
            val = self.ev(st.value, fr)
            self.set_attr(o, t.attr, self.binop(st.op, cur, val, inplace=True))
        elif isinstance(t, ast.Subscript):
            o = self.ev(t.value, fr)
            k = self.ev(t.slice, fr)
            cur = self.getitem(o, k)
            val = self.ev(st.value, fr)
            self.setitem(o, k, self.binop(st.op, cur, val, inplace=True))
        else:
            self.unsupported("augmented assignment target", st)

    def ex_Return(self, st, fr):
        raise _Return(self.ev(st.value, fr) if st.value is not None else None)

    def ex_If(self, st, fr):
        body = st.body if self.truth(self.ev(st.test, fr)) else st.orelse
        for s in body:
            self.ex(s, fr)

    def ex_While(self, st, fr):
        n = 0
        broke = False
        while self.truth(self.ev(st.test, fr)):
            n += 1
            if n > 100000:
                raise BoundExceeded("while loop ran 100000 iterations")
            try:
                for s in st.body:
                    self.ex(s, fr)
            except _Break:
                broke = True
                break
            except _Continue:
                continue
        if not broke:
            for s in st.orelse:
                self.ex(s, fr)

    def ex_For(self, st, fr):
        it = self.iterate(self.ev(st.iter, fr))
        broke = False
        for item in it:
            self.assign(st.target, item, fr)
            try:
                for s in st.body:
                    self.ex(s, fr)
            except _Break:
                broke = True
                break
            except _Continue:
                continue
        if not broke:
            for s in st.orelse:
                self.ex(s, fr)

    def ex_Break(self, st, fr):
        raise _Break()

    def ex_Continue(self, st, fr):
        raise _Continue()

    def ex_Raise(self, st, fr):
        if st.exc is None:
            e = fr.locals.get("__exc__")
            if e is None:
                self.raise_(RuntimeError("No active exception to reraise"))
            raise e
        e = self.ev(st.exc, fr)
        if isinstance(e, type) and issubclass(e, BaseException):
            e = self.call(e, [], {})
        if st.cause is not None:
            c = self.ev(st.cause, fr)
            try:
                e.__cause__ = c
            except Exception:
                pass
        if not isinstance(e, BaseException):
            self.raise_(TypeError("exceptions must derive from BaseException"))
        raise mark(e)

    def _catchable(self, e):
        if isinstance(e, (Control, SymEscape)):
            return False
        if isinstance(e, RecursionError):
            return False
        if isinstance(e, Exception) and not is_program_exc(e):
            import traceback
            raise EngineBug("engine failure inside interpreted code: %s: %s\n%s" % (type(e).__name__, e, "".join(traceback.format_exception(type(e), e, e.__traceback__))[-1800:])) from e
        return isinstance(e, Exception)

    def ex_Try(self, st, fr):
        try:
            try:
                for s in st.body:
                    self.ex(s, fr)
            except BaseException as e:
                if not self._catchable(e):
                    raise
                for h in st.handlers:
                    if h.type is None:
                        ok = True
                    else:
                        t = self.ev(h.type, fr)
                        ok = isinstance(e, t)
                    if ok:
                        saved = fr.locals.get("__exc__")
                        fr.locals["__exc__"] = e
                        if h.name:
                            fr.locals[h.name] = e
                        try:
                            for s in h.body:
                                self.ex(s, fr)
                        finally:
                            if h.name:
                                fr.locals.pop(h.name, None)
                            if saved is None:
                                fr.locals.pop("__exc__", None)
                            else:
                                fr.locals["__exc__"] = saved
                        break
                else:
                    raise
            else:
                for s in st.orelse:
                    self.ex(s, fr)
        finally:
            if st.finalbody:
                # finally blocks also run for interpreter control flow (return/break/continue), but not for
                # engine signals that abandon the path
                et = sys.exc_info()[0]
                if et is None or not issubclass(et, Control) or issubclass(et, (_Return, _Break, _Continue)):
                    for s in st.finalbody:
                        self.ex(s, fr)

    def ex_With(self, st, fr):
        self._with(st, 0, fr)

    def _with(self, st, k, fr):
        if k == len(st.items):
            for s in st.body:
                self.ex(s, fr)
            return
        item = st.items[k]
        # generator-based context manager written in interpreted code: run it inline (yield = with-body)
        gen = self._inline_cm(item.context_expr, fr)
        if gen is not None:
            f, info, args, kwargs = gen

            def cb(value):
                if item.optional_vars is not None:
                    self.assign(item.optional_vars, value, fr)
                self._with(st, k + 1, fr)
            env = self.bind(info.node, args, kwargs, f.__defaults__, f.__kwdefaults__, f.__name__)
            gfr = Frame(env, f.__globals__, None, info.localnames, None, f.__name__)
            gfr.globalnames = info.globalnames
            gfr.yield_cb = cb
            qn = "%s.%s" % (f.__module__, f.__qualname__)
            self.stats.functions.setdefault(qn, info.file)
            try:
                for s in info.node.body:
                    self.ex(s, gfr)
            except _Return:
                pass
            return
        cm = self.ev(item.context_expr, fr)
        enter = self.get_attr(cm, "__enter__")
        exit_ = self.get_attr(cm, "__exit__")
        v = self.call(enter, [], {})
        if item.optional_vars is not None:
            self.assign(item.optional_vars, v, fr)
        try:
            self._with(st, k + 1, fr)
        except BaseException as e:
            if isinstance(e, (_Return, _Break, _Continue)):
                self.call(exit_, [None, None, None], {})
                raise
            if not self._catchable(e):
                raise
            if not self.truth(self.call(exit_, [type(e), e, e.__traceback__], {})):
                raise
        else:
            self.call(exit_, [None, None, None], {})

    def _inline_cm(self, expr, fr):
        if not isinstance(expr, ast.Call):
            return None
        try:
            f = self.ev(expr.func, fr)
        except Exception:
            return None
        w = getattr(f, "__wrapped__", None)
        if w is None or not isinstance(w, types.FunctionType):
            return None
        info = self.func_info(w)
        if info is None or not info.is_gen:
            return None
        args, kwargs = self.eval_args(expr, fr)
        return w, info, args, kwargs

    def ex_Delete(self, st, fr):
        for t in st.targets:
            if isinstance(t, ast.Name):
                if t.id in fr.locals:
                    del fr.locals[t.id]
                else:
                    self.raise_(NameError("name '%s' is not defined" % t.id))
            elif isinstance(t, ast.Attribute):
                self.native(delattr, self.ev(t.value, fr), t.attr)
            elif isinstance(t, ast.Subscript):
                self.delitem(self.ev(t.value, fr), self.ev(t.slice, fr))
            else:
                self.unsupported("del target", st)

    def ex_Assert(self, st, fr):
        if not self.truth(self.ev(st.test, fr)):
            msg = self.ev(st.msg, fr) if st.msg is not None else None
            self.raise_(AssertionError(msg) if msg is not None else AssertionError())

    def ex_Global(self, st, fr):
        pass

    def ex_Nonlocal(self, st, fr):
        self.unsupported("nonlocal", st)

    def ex_Import(self, st, fr):
        for al in st.names:
            mod = self.native(__import__, al.name, fr.globals, None, (), 0)
            if al.asname:
                for p in al.name.split(".")[1:]:
                    mod = getattr(mod, p)
                self.store_name(al.asname, mod, fr)
            else:
                self.store_name(al.name.split(".")[0], mod, fr)

    def ex_ImportFrom(self, st, fr):
        mod = self.native(__import__, st.module or "", fr.globals, None, tuple(a.name for a in st.names), st.level)
        for al in st.names:
            self.store_name(al.asname or al.name, self.native(getattr, mod, al.name), fr)

    def ex_FunctionDef(self, st, fr):
        if st.decorator_list:
            self.unsupported("decorated nested function", st)
        self.store_name(st.name, self.make_closure(st, fr, st.name), fr)

    def make_closure(self, node, fr, name):
        a = node.args
        defaults = tuple(self.ev(d, fr) for d in a.defaults)
        kwdefaults = {k.arg: self.ev(d, fr) for k, d in zip(a.kwonlyargs, a.kw_defaults) if d is not None}
        return Closure(self, node, fr, defaults, kwdefaults, name)

    # ------------------------------------------------------------------------------------------
    # names, assignment
    def load_name(self, name, fr):
        f = fr
        first = True
        while f is not None:
            if name in f.locals:
                return f.locals[name]
            if first and f.localnames is not None and name in f.localnames and name not in f.globalnames:
                self.raise_(UnboundLocalError(
                    "cannot access local variable '%s' where it is not associated with a value" % name))
            first = False
            f = f.parent
        g = fr.globals
        if name in g:
            return g[name]
        b = g.get("__builtins__", builtins)
        if isinstance(b, dict):
            if name in b:
                return b[name]
        elif hasattr(b, name):
            return getattr(b, name)
        if hasattr(builtins, name):
            return getattr(builtins, name)
        self.raise_(NameError("name '%s' is not defined" % name))

    def store_name(self, name, v, fr):
        if name in fr.globalnames:
            fr.globals[name] = v
        else:
            fr.locals[name] = v

    def assign(self, t, v, fr):
        if isinstance(t, ast.Name):
            self.store_name(t.id, v, fr)
        elif isinstance(t, ast.Attribute):
            self.set_attr(self.ev(t.value, fr), t.attr, v)
        elif isinstance(t, ast.Subscript):
            self.setitem(self.ev(t.value, fr), self.ev(t.slice, fr), v)
        elif isinstance(t, (ast.Tuple, ast.List)):
            vals = list(self.iterate(v))
            star = [i for i, x in enumerate(t.elts) if isinstance(x, ast.Starred)]
            if star:
                i = star[0]
                after = len(t.elts) - i - 1
                if len(vals) < len(t.elts) - 1:
                    self.raise_(ValueError("not enough values to unpack"))
                for x, y in zip(t.elts[:i], vals[:i]):
                    self.assign(x, y, fr)
                self.assign(t.elts[i].value, vals[i:len(vals) - after], fr)
                for x, y in zip(t.elts[i + 1:], vals[len(vals) - after:]):
                    self.assign(x, y, fr)
                return
            if len(vals) > len(t.elts):
                self.raise_(ValueError("too many values to unpack (expected %d)" % len(t.elts)))
            if len(vals) < len(t.elts):
                self.raise_(ValueError("not enough values to unpack (expected %d, got %d)" % (len(t.elts), len(vals))))
            for x, y in zip(t.elts, vals):
                self.assign(x, y, fr)
        else:
            self.unsupported("assignment target %s" % type(t).__name__, t)

    # ------------------------------------------------------------------------------------------
    # protocols
    def get_attr(self, o, name):
        if isinstance(o, SYM):
            return self.models.sym_attr(self, o, name)
        cls = type(o)
        if cls.__module__ != "builtins":
            for k in cls.__mro__:
                d = k.__dict__.get(name)
                if d is not None:
                    if isinstance(d, property) and d.fget is not None and self.func_info(d.fget) is not None:
                        if not (isinstance(o, type)):
                            return self.call(d.fget, [o], {})
                    break
        return self.native(getattr, o, name)

    def set_attr(self, o, name, v):
        if isinstance(o, SYM):
            self.raise_(AttributeError("'%s' object has no attribute '%s'" % (pytype(o).__name__, name)))
        self.native(setattr, o, name, v)

    def getitem(self, o, k):
        return self.models.getitem(self, o, k)

    def setitem(self, o, k, v):
        return self.models.setitem(self, o, k, v)

    def delitem(self, o, k):
        return self.models.delitem(self, o, k)

    def iterate(self, o):
        return self.models.iterate(self, o)

    def contains(self, item, cont):
        return self.models.contains(self, item, cont)

    def binop(self, op, l, r, inplace=False):
        return self.models.binop(self, type(op), l, r, inplace)

    # ------------------------------------------------------------------------------------------
    # expressions
    def ev(self, e, fr):
        h = self._ev.get(type(e))
        if h is None:
            self.unsupported("expression %s" % type(e).__name__, e)
        return h(e, fr)

    def ev_Constant(self, e, fr):
        return e.value

    def ev_Name(self, e, fr):
        return self.load_name(e.id, fr)

    def ev_Attribute(self, e, fr):
        return self.get_attr(self.ev(e.value, fr), e.attr)

    def eval_args(self, e, fr):
        args = []
        for a in e.args:
            if isinstance(a, ast.Starred):
                args.extend(self.iterate(self.ev(a.value, fr)))
            else:
                args.append(self.ev(a, fr))
        kwargs = {}
        for k in e.keywords:
            if k.arg is None:
                d = self.ev(k.value, fr)
                for kk in d:
                    kwargs[kk] = d[kk]
            else:
                kwargs[k.arg] = self.ev(k.value, fr)
        return args, kwargs

    def ev_Call(self, e, fr):
        fn = e.func
        if isinstance(fn, ast.Name) and fn.id == "super" and not e.args and "super" not in fr.locals:
            f = fr
            while f is not None and f.cls is None:
                f = f.parent
            if f is None:
                self.raise_(RuntimeError("super(): __class__ cell not found"))
            # first positional parameter of the function frame
            ff = fr
            while ff.parent is not None and ff.cls is None:
                ff = ff.parent
            first = next(iter(ff.locals.values())) if ff.locals else None
            return self.native(super, f.cls, first)
        f = self.ev(fn, fr)
        args, kwargs = self.eval_args(e, fr)
        return self.call(f, args, kwargs)

    def ev_Compare(self, e, fr):
        left = self.ev(e.left, fr)
        acc = []
        for i, (op, r) in enumerate(zip(e.ops, e.comparators)):
            right = self.ev(r, fr)
            v = self.compare(type(op), left, right)
            if len(e.ops) == 1:
                return v
            # chained comparison: merge when every link is boolean-valued, else short-circuit by forking
            if isinstance(v, (bool, SymBool)):
                if v is False:
                    return False
                acc.append(v)
            else:
                if not self.truth(v):
                    return v
            left = right
        terms = [bterm(x) for x in acc if x is not True]
        return mkbool(And(*terms))

    def compare(self, op, left, right):
        if op is ast.Eq:
            return self.eq(left, right)
        if op is ast.NotEq:
            return self.not_(self.eq(left, right))
        if op is ast.In:
            return self.contains(left, right)
        if op is ast.NotIn:
            return self.not_(self.contains(left, right))
        if op is ast.Is:
            return self._is(left, right)
        if op is ast.IsNot:
            return not self._is(left, right)
        return self.order(op, left, right)

    def _is(self, a, b):
        if a is b:
            return True
        if isinstance(a, SymBool) and isinstance(b, bool) or isinstance(b, SymBool) and isinstance(a, bool):
            # `x is True`: identity with the bool singletons is equality for bools
            s, o = (a, b) if isinstance(a, SymBool) else (b, a)
            return self.decide(s.t if o else Not(s.t))
        return False

    def ev_BoolOp(self, e, fr):
        is_and = isinstance(e.op, ast.And)
        v = None
        n = len(e.values)
        for i, x in enumerate(e.values):
            v = self.ev(x, fr)
            if i == n - 1:
                return v
            if isinstance(v, SymBool) and self._pure_bool_rest(e.values[i + 1:]):
                # value-level merge: the remaining operands are side-effect free boolean expressions
                rest = []
                ok = True
                for y in e.values[i + 1:]:
                    w = self.ev(y, fr)
                    if not isinstance(w, (bool, SymBool)):
                        ok = False
                        break
                    rest.append(bterm(w))
                if ok:
                    return mkbool(And(v.t, *rest) if is_and else Or(v.t, *rest))
            t = self.truth(v)
            if is_and and not t:
                return v
            if not is_and and t:
                return v
        return v

    def _pure_bool_rest(self, nodes):
        def pure(n):
            if isinstance(n, (ast.Constant, ast.Name)):
                return True
            if isinstance(n, ast.Attribute):
                return pure(n.value)
            if isinstance(n, ast.Compare):
                return pure(n.left) and all(pure(c) for c in n.comparators) and \
                    all(isinstance(o, (ast.Eq, ast.NotEq, ast.Is, ast.IsNot, ast.Lt, ast.LtE, ast.Gt, ast.GtE)) for o in n.ops)
            if isinstance(n, ast.UnaryOp) and isinstance(n.op, ast.Not):
                return pure(n.operand)
            if isinstance(n, ast.BoolOp):
                return all(pure(v) for v in n.values)
            return False
        return all(isinstance(n, (ast.Compare, ast.UnaryOp, ast.BoolOp)) and pure(n) for n in nodes)

    def ev_UnaryOp(self, e, fr):
        v = self.ev(e.operand, fr)
        if isinstance(e.op, ast.Not):
            return self.not_(v)
        if isinstance(e.op, ast.USub):
            if isinstance(v, SymInt):
                return mkint(-v.t)
            if isinstance(v, SymFloat):
                return SymFloat(-v.t)
            return self.native(operator.neg, v)
        if isinstance(e.op, ast.UAdd):
            if isinstance(v, (SymInt, SymFloat)):
                return v
            return self.native(operator.pos, v)
        if isinstance(v, SYM):
            self.unsupported("unary %s on a symbolic value" % type(e.op).__name__, e)
        return self.native(operator.invert, v)

    def ev_BinOp(self, e, fr):
        l = self.ev(e.left, fr)
        r = self.ev(e.right, fr)
        return self.models.binop(self, type(e.op), l, r, False)

    def ev_Subscript(self, e, fr):
        return self.getitem(self.ev(e.value, fr), self.ev(e.slice, fr))

    def ev_Slice(self, e, fr):
        return slice(self.ev(e.lower, fr) if e.lower is not None else None,
                     self.ev(e.upper, fr) if e.upper is not None else None,
                     self.ev(e.step, fr) if e.step is not None else None)

    def ev_IfExp(self, e, fr):
        return self.ev(e.body if self.truth(self.ev(e.test, fr)) else e.orelse, fr)

    def _elts(self, elts, fr):
        out = []
        for x in elts:
            if isinstance(x, ast.Starred):
                out.extend(self.iterate(self.ev(x.value, fr)))
            else:
                out.append(self.ev(x, fr))
        return out

    def ev_List(self, e, fr):
        return self._elts(e.elts, fr)

    def ev_Tuple(self, e, fr):
        return tuple(self._elts(e.elts, fr))

    def ev_Set(self, e, fr):
        return self.models.make_set(self, self._elts(e.elts, fr))

    def ev_Dict(self, e, fr):
        d = {}
        for k, v in zip(e.keys, e.values):
            if k is None:
                sub = self.ev(v, fr)
                for kk in sub:
                    d[kk] = sub[kk]
            else:
                kk = self.ev(k, fr)
                vv = self.ev(v, fr)
                self.setitem(d, kk, vv)
        return d

    def _comp(self, gens, fr, emit, k=0):
        if k == len(gens):
            emit(fr)
            return
        g = gens[k]
        if g.is_async:
            self.unsupported("async comprehension")
        for item in self.iterate(self.ev(g.iter, fr)):
            self._step()
            self.assign(g.target, item, fr)
            ok = True
            for c in g.ifs:
                if not self.truth(self.ev(c, fr)):
                    ok = False
                    break
            if ok:
                self._comp(gens, fr, emit, k + 1)

    def _comp_frame(self, fr):
        return Frame({}, fr.globals, fr, None, None, "<comp>")

    def ev_ListComp(self, e, fr):
        out = []
        sub = self._comp_frame(fr)
        self._comp(e.generators, sub, lambda f: out.append(self.ev(e.elt, f)))
        return out

    def ev_GeneratorExp(self, e, fr):
        """lazy, as in CPython: the outermost iterable is evaluated now, everything else when the consumer asks for the next
        element - names of the enclosing function are looked up at that moment (a loop that re-binds a name the filter uses
        changes the filter)"""
        sub = self._comp_frame(fr)
        gens = e.generators
        if gens[0].is_async:
            self.unsupported("async comprehension")
        first = self.iterate(self.ev(gens[0].iter, fr))

        def level(k, source):
            g = gens[k]
            for item in source:
                self._step()
                self.assign(g.target, item, sub)
                ok = True
                for c in g.ifs:
                    if not self.truth(self.ev(c, sub)):
                        ok = False
                        break
                if not ok:
                    continue
                if k + 1 == len(gens):
                    yield self.ev(e.elt, sub)
                else:
                    if gens[k + 1].is_async:
                        self.unsupported("async comprehension")
                    for x in level(k + 1, self.iterate(self.ev(gens[k + 1].iter, sub))):
                        yield x
        return level(0, first)

    def ev_SetComp(self, e, fr):
        out = []
        sub = self._comp_frame(fr)
        self._comp(e.generators, sub, lambda f: out.append(self.ev(e.elt, f)))
        return self.models.make_set(self, out)

    def ev_DictComp(self, e, fr):
        out = {}
        sub = self._comp_frame(fr)

        def emit(f):
            k = self.ev(e.key, f)
            self.setitem(out, k, self.ev(e.value, f))
        self._comp(e.generators, sub, emit)
        return out

    def ev_Lambda(self, e, fr):
        return self.make_closure(e, fr, "<lambda>")

    def ev_JoinedStr(self, e, fr):
        parts = []
        for v in e.values:
            if isinstance(v, ast.Constant):
                parts.append(v.value)
            else:
                val = self.ev(v.value, fr)
                if v.conversion == 114:
                    val = self.call(repr, [val], {})
                elif v.conversion == 115:
                    val = self.call(str, [val], {})
                spec = self.ev(v.format_spec, fr) if v.format_spec is not None else ""
                parts.append(self.models.format_value(self, val, spec))
        return sstr.mk(parts)

    def ev_FormattedValue(self, e, fr):
        val = self.ev(e.value, fr)
        spec = self.ev(e.format_spec, fr) if e.format_spec is not None else ""
        return self.models.format_value(self, val, spec)

    def ev_NamedExpr(self, e, fr):
        v = self.ev(e.value, fr)
        f = fr
        while f.name == "<comp>" and f.parent is not None:
            f = f.parent
        self.assign(e.target, v, f)
        return v

    def ev_Starred(self, e, fr):
        self.unsupported("starred expression", e)

    def ev_Yield(self, e, fr):
        v = self.ev(e.value, fr) if e.value is not None else None
        f = fr
        while f is not None and f.yields is None and f.yield_cb is None and f.lazy is None:
            f = f.parent
        if f is None:
            self.unsupported("yield outside a supported generator", e)
        if f.lazy is not None:
            return f.lazy.emit(v)
        if f.yield_cb is not None:
            cb = f.yield_cb
            f.yield_cb = None
            cb(v)
            return None
        f.yields.append(v)
        return None

    def ev_YieldFrom(self, e, fr):
        f = fr
        while f is not None and f.yields is None and f.lazy is None:
            f = f.parent
        if f is None:
            self.unsupported("yield from outside a supported generator", e)
        for v in self.iterate(self.ev(e.value, fr)):
            if f.lazy is not None:
                f.lazy.emit(v)
            else:
                f.yields.append(v)
        return None

    # ------------------------------------------------------------------------------------------
    def eval_expr_string(self, src, env, globals_=None):
        """evaluate a Python expression (e.g. a known-finding predicate) over possibly symbolic values"""
        node = ast.parse(src, mode="eval").body
        fr = Frame(dict(env), globals_ or {"__builtins__": builtins}, None, None, None, "<expr>")
        return self.ev(node, fr)
