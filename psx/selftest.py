"""Self-validation of the engine's models against CPython (run inside every check that relies on them).

* regex: the bounded backtracking-VM encoding, instantiated with concrete characters (every term folds to a Python
  bool/int), must agree with `re` on match / no match, every group span and the match end, for every pattern the
  library uses, on random strings drawn from each pattern's own literals and character classes (+ a few foreign ones).
* strings: the symbolic string models, with inputs pinned to concrete values through the solver, must compute
  CPython's results (find/rfind/count/split/rsplit/strip/startswith/endswith/slicing/lower/replace/int/str).
* lemma int_float_roundtrip: for |n| <= 2**53 the chain int -> binary64 -> int is the identity (QF_BVFP, z3).
"""
import random
import re
import time


def pattern_alphabet(pattern):
    import re._parser as sp
    chars = set("a1-.:/ \n_Z")
    def walk(seq):
        for op, arg in seq:
            if op is sp.LITERAL or op is sp.NOT_LITERAL:
                chars.add(chr(arg))
            elif op is sp.IN:
                for o, a in arg:
                    if o is sp.LITERAL:
                        chars.add(chr(a))
                    elif o is sp.RANGE:
                        chars.add(chr(a[0]))
                        chars.add(chr(a[1]))
                        chars.add(chr((a[0] + a[1]) // 2))
                    elif o is sp.CATEGORY:
                        chars.update("5٣ x_")
            elif op is sp.SUBPATTERN:
                walk(arg[3])
            elif op is sp.BRANCH:
                for b in arg[1]:
                    walk(b)
            elif op in (sp.MAX_REPEAT, sp.MIN_REPEAT):
                walk(arg[2])
    walk(sp.parse(pattern))
    return sorted(chars)


def regex_selftest(patterns, seed, per_pattern=150):
    from . import rx
    rnd = random.Random(seed)
    t0 = time.time()
    n = nm = 0
    skipped = []
    for pat in sorted(patterns):
        try:
            rx.program(pat)
        except rx.Unsupported as e:
            skipped.append("%s: %s" % (pat, e))
            continue
        alpha = pattern_alphabet(pat)
        cre = re.compile(pat)
        for k in range(per_pattern):
            ln = rnd.randint(0, 14)
            s = "".join(rnd.choice(alpha) for _ in range(ln))
            if "{8}" in pat and rnd.random() < 0.6:
                s = s[:4] + "".join(rnd.choice("0123456789") for _ in range(rnd.choice([7, 8, 9, 16]))) + rnd.choice(["", ".n", ".t.1", ".12", ".nightly.3", "\n", ".x.1"])
            if "{32}" in pat and rnd.random() < 0.6:
                s = "".join(rnd.choice("abcdef0123456789Z") for _ in range(rnd.choice([31, 32, 33]))) + rnd.choice(["", "\n"])
            nm += rx.check_against_re(pat, s, maxlen=len(s) + rnd.randint(0, 2))
            n += 1
    return {"patterns": len(patterns) - len(skipped), "strings": n, "matching": nm, "disagreements": 0, "skipped": skipped, "time_s": round(time.time() - t0, 2)}


def string_selftest(seed, rounds=60):
    """pinned-symbolic differential test of the string models"""
    import z3
    from . import interp, models, sstr, stubs
    from .values import SymInt, SymBool, SymStr
    rnd = random.Random(seed)
    t0 = time.time()
    I = interp.Interp([])
    I.solver.push()
    I.depth = 1
    interp.CURRENT[0] = I
    checked = 0
    alphabet = "ab-./:% \n\rAZ09é"
    ops = [
        ("find", lambda s, a, b: s.find(a)), ("rfind", lambda s, a, b: s.rfind(a)), ("count", lambda s, a, b: s.count(a[:1] or "a")),
        ("startswith", lambda s, a, b: s.startswith(a)), ("endswith", lambda s, a, b: s.endswith(a)),
        ("split", lambda s, a, b: s.split(a[:1] or "-")), ("rsplit2", lambda s, a, b: s.rsplit(a[:1] or "-", 2)), ("split1", lambda s, a, b: s.split(a[:1] or "-", 1)),
        ("strip", lambda s, a, b: s.strip()), ("rstrip", lambda s, a, b: s.rstrip("/")), ("lstrip", lambda s, a, b: s.lstrip("/ ")),
        ("slice", lambda s, a, b: s[b % 3:-(b % 4) or None]), ("neg-slice", lambda s, a, b: s[:-(1 + b % 5)]), ("lower", lambda s, a, b: s.lower()),
        ("replace", lambda s, a, b: s.replace("-", "")), ("replace%%", lambda s, a, b: s.replace("%%", "")), ("contains", lambda s, a, b: a in s),
        ("eq", lambda s, a, b: s == a), ("lt", lambda s, a, b: s < a), ("len", lambda s, a, b: len(s)), ("concat", lambda s, a, b: s + a + "x"),
        ("format", lambda s, a, b: "%s-%s.%d" % (s, a, b)), ("join", lambda s, a, b: ",".join([s, a, "z"])),
        ("splitlines", lambda s, a, b: s.splitlines()), ("nlines", lambda s, a, b: len((s + a).splitlines())),
    ]
    import ast as _ast
    src = {
        "find": "s.find(a)", "rfind": "s.rfind(a)", "count": "s.count(a[:1] or 'a')", "startswith": "s.startswith(a)", "endswith": "s.endswith(a)",
        "split": "s.split(a[:1] or '-')", "rsplit2": "s.rsplit(a[:1] or '-', 2)", "split1": "s.split(a[:1] or '-', 1)", "strip": "s.strip()",
        "rstrip": "s.rstrip('/')", "lstrip": "s.lstrip('/ ')", "slice": "s[b % 3:-(b % 4) or None]", "neg-slice": "s[:-(1 + b % 5)]", "lower": "s.lower()",
        "replace": "s.replace('-', '')", "replace%%": "s.replace('%%', '')", "contains": "a in s", "eq": "s == a", "lt": "s < a", "len": "len(s)",
        "splitlines": "s.splitlines()", "nlines": "len((s + a).splitlines())",
        "concat": "s + a + 'x'", "format": "'%s-%s.%d' % (s, a, b)", "join": "','.join([s, a, 'z'])",
    }
    failures = []
    for r in range(rounds):
        s = "".join(rnd.choice(alphabet) for _ in range(rnd.randint(0, 7)))
        a = rnd.choice([s[:2], s[-2:], "-", ".", "/", "", "ab", "%%", rnd.choice(alphabet)])
        b = rnd.randint(0, 9)
        name, fn = ops[r % len(ops)]
        want = fn(s, a, b)
        # the subject is symbolic but pinned to s by constraints; the argument stays concrete
        I.solver.push()
        atom = sstr.new_atom("st%d" % r, max(len(s) + 1, 1))
        I.solver.add(atom.domain_constraints(allow_surrogates=True))
        I.solver.add(atom.n == len(s))
        for i, ch in enumerate(s):
            I.solver.add(atom.c[i] == ord(ch))
        I.pc = []
        I.model = None
        I.in_prefix = False
        I.log = []
        I.pos = 0
        I.keep = 0
        sym = SymStr([atom])
        try:
            got = I.eval_expr_string(src[name], {"s": sym, "a": a, "b": b})
            ok = _same(I, got, want)
        except interp.Control as e:
            if isinstance(e, interp.PathCut):
                ok = True
            else:
                ok = False
                got = "engine signal %s" % type(e).__name__
        except Exception as e:
            ok = False
            got = "%s: %s" % (type(e).__name__, e)
        if not ok:
            failures.append({"op": name, "s": s, "a": a, "b": b, "want": repr(want), "got": repr(got)})
        checked += 1
        # pop everything this round pushed
        while I.depth > 1:
            I.solver.pop()
            I.depth -= 1
        I.solver.pop()
    interp.CURRENT[0] = None
    return {"cases": checked, "failures": failures, "time_s": round(time.time() - t0, 2)}


def _same(I, got, want):
    """the symbolic result is forced to equal CPython's result under the pinning constraints"""
    import z3
    from .values import SymInt, SymBool, SymStr
    if isinstance(want, list):
        if not isinstance(got, list) or len(got) != len(want):
            return False
        return all(_same(I, g, w) for g, w in zip(got, want))
    e = I.eq(got, want)
    if isinstance(want, bool) != isinstance(got, (bool, SymBool)) and not isinstance(got, (bool, SymBool)):
        return False
    if e is True:
        return True
    if e is False:
        return False
    # equality must be valid (its negation unsat) under the pinned path condition
    r, _ = I._check(z3.Not(e.t))
    return r == "unsat"


def lemma_int_float_roundtrip(timeout_ms=60000):
    """for a signed 64-bit n with |n| <= 2**53: fp.to_sbv(RTZ, to_fp(RNE, n)) == n; and it fails at 2**53 + 1 (tightness)"""
    import z3
    t0 = time.time()
    n = z3.BitVec("n", 64)
    f = z3.fpSignedToFP(z3.RNE(), n, z3.Float64())
    back = z3.fpToSBV(z3.RTZ(), f, z3.BitVecSort(64))
    s = z3.Solver()
    s.set("timeout", timeout_ms)
    lim = z3.BitVecVal(2 ** 53, 64)
    s.add(n <= lim, n >= -lim, back != n)
    r1 = str(s.check())
    s2 = z3.Solver()
    s2.set("timeout", timeout_ms)
    s2.add(n == z3.BitVecVal(2 ** 53 + 1, 64), back != n)
    r2 = str(s2.check())
    return {"holds_up_to_2**53": r1 == "unsat", "fails_at_2**53+1": r2 == "sat", "verdicts": [r1, r2], "time_s": round(time.time() - t0, 2)}


def int_to_double_selftest(seed, n=2000):
    """the round-half-even model of float(int) above 2**53 (models.int_to_double): its concrete twin against CPython on random and
    boundary integers up to 2**64, and the z3 term against CPython on pinned values"""
    import z3
    from . import models
    rnd = random.Random(seed)
    t0 = time.time()
    vals = [2 ** 53, 2 ** 53 + 1, 2 ** 53 + 2, 2 ** 53 + 3, 2 ** 54 + 2, 2 ** 54 + 6, 2 ** 63 + 1024, 2 ** 63 + 1025, 2 ** 64, 2 ** 64 - 1, 2 ** 64 - 1023, 2 ** 64 - 1024,
            2 ** 60 + 64, 2 ** 60 + 65, 2 ** 60 + 191, 2 ** 60 + 192]
    for _ in range(n):
        e = rnd.randint(50, 64)
        vals.append(min(2 ** 64, rnd.randint(2 ** (e - 1), 2 ** e)))
    bad = [v for v in vals for sg in (1, -1) if models.round_half_even_to_double(sg * v) != int(float(sg * v))]

    class _NoCut(object):
        int_bounds = {}

        def cut(self, *a):
            pass

        def feasible(self, c):
            return True
    t = z3.Int("t")
    expr = models.int_to_double(_NoCut(), t)
    sol = z3.Solver()
    sol.set("timeout", 20000)
    for v in vals[:24] + [-x for x in vals[:8]]:
        sol.push()
        sol.add(t == v, expr != int(float(v)))
        if str(sol.check()) != "unsat":
            bad.append(v)
        sol.pop()
    return {"values": len(vals), "disagreements": len(bad), "examples": bad[:3], "time_s": round(time.time() - t0, 2)}
