"""Symbolic implementation of the harness API (the native twin is psx.native.NativeSym)."""
import json
import os
import subprocess
import sys
import time
import hashlib

import z3

from . import sstr, models
from .sstr import SymStr, Atom, mk
from .terms import And, Or, Not, If, Eq, Implies, in_ranges, simp, model_int, model_bool, is_true, is_false
from .values import (SymBool, SymInt, SymFloat, SYM, mkbool, mkint, bterm, iterm, pytype, StopExploration,
                     PathInfeasible, Inconclusive)
from .native import class_ranges, NAMED_CLASSES

HERE = os.path.dirname(os.path.dirname(os.path.abspath(__file__)))


@models.engine_type
class Sym(object):
    symbolic = True
    psx_engine = True

    def __init__(self, interp, job):
        self.I = interp
        self.job = job                  # JobContext
        self.vars = {}                  # name -> (kind, payload) declared on the current path
        interp.path_hooks.append(self._reset)

    def psx_symbolic(self):
        return False

    def _reset(self):
        self.vars = {}
        self.path_covers_full = []      # labels in execution order, including the replayed prefix
        self.path_checks_full = []

    # -- inputs ----------------------------------------------------------------------------------
    def str(self, name, maxlen, minlen=0, alphabet=None):
        I = self.I
        a = sstr.new_atom("in." + name, maxlen)
        cons = a.domain_constraints()
        if minlen:
            cons.append(a.n >= minlen)
        r = class_ranges(alphabet)
        if r is not None:
            for c in a.c:
                cons.append(in_ranges(c, r))
            a.alpha = r
        I.add_side(cons)
        v = SymStr([a]) if maxlen > 0 else ""
        self.vars[name] = ("str", v)
        self.job.bounds["str:" + name] = {"maxlen": maxlen, "minlen": minlen, "alphabet": alphabet if alphabet is None or isinstance(alphabet, str) else list(alphabet)}
        return v

    def int(self, name, lo=None, hi=None):
        t = z3.Int("in." + name)
        cons = []
        if lo is not None:
            cons.append(t >= lo)
        if hi is not None:
            cons.append(t <= hi)
        self.I.add_side(cons)
        self.I.int_bounds[t.get_id()] = (lo, hi)
        self.vars[name] = ("int", t)
        self.job.bounds["int:" + name] = {"lo": lo, "hi": hi}
        return SymInt(t)

    def bool(self, name):
        t = z3.Bool("in." + name)
        self.vars[name] = ("bool", t)
        return SymBool(t)

    def choice(self, name, options):
        options = list(options)
        i = self.I.choose(len(options))
        self.vars[name] = ("choice", i)
        self.job.bounds["choice:" + name] = {"options": len(options)}
        return options[i]

    def fork(self, name):
        i = self.I.choose(2)
        self.vars[name] = ("fork", bool(i))
        return bool(i)

    def one_of(self, name, options):
        """a symbolic string constrained to a finite list (one merged formula, no fork)"""
        options = list(options)
        m = max(len(o) for o in options)
        a = sstr.new_atom("in." + name, m)
        cons = a.domain_constraints()
        cons.append(z3.Or(*[_z(a.eq_lit(o)) for o in options]))
        self.I.add_side(cons)
        v = SymStr([a])
        self.vars[name] = ("str", v)
        self.job.bounds["one_of:" + name] = {"options": len(options)}
        return v

    # -- verdicts ----------------------------------------------------------------------------------
    def assume(self, cond):
        self.I.assume(self._b(cond))

    def cover(self, label):
        self.path_covers_full.append(label)
        if self.I.in_prefix:
            return
        self.job.covers[label] = self.job.covers.get(label, 0) + 1

    def steps(self):
        """steps executed on this path so far (interpreted statements, calls, comprehension iterations)"""
        return self.I.path_steps

    def step_limit(self, extra):
        """from here on the path may execute at most `extra` further steps; more raises CostLimitExceeded (None: no limit)"""
        self.I.step_limit = None if extra is None else self.I.path_steps + extra

    def approximate_numerics(self):
        """from here on, numbers read from symbolic text by float() / Decimal() get opaque values and their value-dependent
        cost is charged (psx/numerics.py); only cost obligations may follow"""
        self.I.options["approximate_numerics"] = True
        self.job.bounds["approximate_numerics"] = "opaque values, lower-bound cost charges in units of 50 us CPU (psx/numerics.py)"

    def charged(self):
        """value-dependent cost charged on this path so far, in units of 50 microseconds of CPU time (lower bound)"""
        from .values import mkint
        total = 0
        for t, what in self.I.charges:
            total = total + t
        return mkint(total)

    def note_max(self, key, value):
        self.job.notes[key] = max(self.job.notes.get(key, value), value)

    def note(self, key, value):
        self.job.notes[key] = value

    def option(self, name, value):
        self.I.options[name] = value

    def _b(self, cond):
        if isinstance(cond, (bool, SymBool)):
            return bterm(cond)
        t = self.I.truth_term(cond)
        if t is None:
            return self.I.truth(cond)
        return t

    def check(self, label, cond):
        self.path_checks_full.append(label)
        if self.I.in_prefix:
            return
        self.job.obligation(self, label, self._b(cond))

    # -- helpers -----------------------------------------------------------------------------------
    def and_(self, *a):
        return mkbool(And(*[self._b(x) for x in a]))

    def or_(self, *a):
        return mkbool(Or(*[self._b(x) for x in a]))

    def not_(self, a):
        return mkbool(Not(self._b(a)))

    def implies(self, a, b):
        return mkbool(Implies(self._b(a), self._b(b)))

    def iff(self, a, b):
        x, y = self._b(a), self._b(b)
        if isinstance(x, bool):
            return mkbool(y if x else Not(y))
        if isinstance(y, bool):
            return mkbool(x if y else Not(x))
        return mkbool(x == y)

    def ite(self, c, a, b):
        c = self._b(c)
        if isinstance(c, bool):
            return a if c else b
        if isinstance(a, (bool, SymBool)) and isinstance(b, (bool, SymBool)):
            return mkbool(If(c, bterm(a), bterm(b)))
        if isinstance(a, (int, SymInt)) and isinstance(b, (int, SymInt)):
            return mkint(If(c, iterm(a), iterm(b)))
        return a if self.I.decide(c) else b

    def chars_in(self, s, spec):
        r = class_ranges(spec)
        if isinstance(s, str):
            return all(any(lo <= ord(ch) <= hi for lo, hi in r) for ch in s)
        parts = []
        for seg in s.segs:
            if isinstance(seg, str):
                if not all(any(lo <= ord(ch) <= hi for lo, hi in r) for ch in seg):
                    return False
            else:
                parts.append(seg.char_pred_all(lambda c: in_ranges(c, r)))
        return mkbool(And(*parts))

    def no_char(self, s, chars):
        cps = [ord(x) for x in chars]
        if isinstance(s, str):
            return not any(ch in chars for ch in s)
        parts = []
        for seg in s.segs:
            if isinstance(seg, str):
                if any(ch in chars for ch in seg):
                    return False
            else:
                parts.append(seg.char_pred_all(lambda c: And(*[Not(Eq(c, x)) for x in cps])))
        return mkbool(And(*parts))

    def char_at_in(self, s, idx, spec):
        r = class_ranges(spec)
        if isinstance(s, str) and isinstance(idx, int):
            if idx < 0:
                idx += len(s)
            return 0 <= idx < len(s) and any(lo <= ord(s[idx]) <= hi for lo, hi in r)
        a = sstr.as_atom(s)
        i = iterm(idx)
        i = If(i < 0, i + a.n, i) if not isinstance(i, int) else (i if i >= 0 else i + a.n)
        return mkbool(And(i >= 0, i < a.n, in_ranges(a.at(i), r)))

    def has_digit_run(self, s, k):
        """the string contains k consecutive ASCII digits"""
        if isinstance(s, str):
            return any(all("0" <= ch <= "9" for ch in s[i:i + k]) for i in range(len(s) - k + 1))
        a = sstr.as_atom(s)
        isd = [And(c >= 48, c <= 57) if not isinstance(c, int) else (48 <= c <= 57) for c in a.c]
        return mkbool(Or(*[And(i + k <= a.n, *isd[i:i + k]) for i in range(a.m - k + 1)]))

    def _fs_bits(self, entries, prefix):
        bits = {}
        cons = []
        for i, rel in enumerate(sorted(entries)):
            t = z3.Bool("in.%s%d" % (prefix, i))
            bits[rel] = t
            self.vars["%s%d" % (prefix, i)] = ("bool", t)
        for rel in sorted(entries):
            parent = os.path.dirname(rel)
            if rel and parent in bits and parent != rel:
                cons.append(z3.Implies(bits[rel], bits[parent]))
            elif rel and parent == "" and "" in bits:
                cons.append(z3.Implies(bits[rel], bits[""]))
        self.I.add_side(cons)
        return bits

    def fs_change(self):
        """the stored files change (another arbitrary layout over the same candidate paths); returns the new existence bits"""
        fs = self.I.options["fs"]
        self._fs_epoch = getattr(self, "_fs_epoch", 0) + 1
        bits = self._fs_bits(self._fs_entries, "fse%d_" % self._fs_epoch)
        fs.new_epoch(bits)
        return dict((rel, SymBool(bits[rel])) for rel in self._fs_entries)

    def symbolic_fs(self, entries, root_name="root", remote=False):
        """entries: {relative path: text (file) | None (directory)}; returns (root path or URL, {relative path: exists?})"""
        from . import stubs
        root = ("http://psx.invalid/" if remote else "/psx-symfs/") + root_name
        self._fs_entries = dict(entries)
        self._fs_epoch = 0
        bits = {}
        cons = []
        for i, rel in enumerate(sorted(entries)):
            t = z3.Bool("in.fs%d" % i)
            bits[rel] = t
            self.vars["fs%d" % i] = ("bool", t)
        for rel in sorted(entries):
            parent = os.path.dirname(rel)
            if rel and parent in bits and parent != rel:
                cons.append(z3.Implies(bits[rel], bits[parent]))
            elif rel and parent == "" and "" in bits:
                cons.append(z3.Implies(bits[rel], bits[""]))
        self.I.add_side(cons)
        fs = stubs.SymFS(self.I, root, entries, bits)
        self.I.options["fs"] = fs
        self.job.bounds["symbolic_fs"] = {"paths": len(entries)}
        return root, dict((rel, SymBool(bits[rel])) for rel in entries)

    def symbolic_file(self, name, max_size):
        """a file of symbolic size (content not modelled); returns its path"""
        t = z3.Int("in." + name)
        self.I.add_side([t >= 0, t <= max_size])
        self.vars[name] = ("int", t)
        self.job.bounds["file:" + name] = {"max_size": max_size}
        path = "/psx-symfile/" + name
        self.I.options.setdefault("symfiles", {})[path] = t
        self._file_names = getattr(self, "_file_names", {})
        self._file_names[path] = name
        self.I.options.setdefault("symfile_versions", {})[path] = 0
        self.I.options.setdefault("symfile_mtimes", {})[path] = self._mtime_var(name, 0)
        return path, SymInt(t)

    def _mtime_var(self, name, version):
        key = "%s.mtime%d" % (name, version)
        t = z3.Int("in." + key)
        self.I.add_side([t >= 0, t <= 2 ** 31 - 1])
        self.vars[key] = ("int", t)
        return t

    def rewrite_file(self, path):
        """the file is rewritten in place: other content of the same size; its modification time (whole seconds) is arbitrary -
        it may well be the same second, or be preserved by the tool that patched the file"""
        vs = self.I.options["symfile_versions"]
        vs[path] += 1
        self.I.options["symfile_mtimes"][path] = self._mtime_var(self._file_names[path], vs[path])

    def scratch_dir(self):
        """a fresh real directory (outside /repo and /verif), removed when the job ends"""
        import tempfile
        d = tempfile.mkdtemp(prefix="psx-scratch-")
        self.job.scratch.append(d)
        return d

    def same(self, a, b):
        return self.I.eq(a, b)

    def is_none(self, v):
        return v is None

    def exc_type(self, e):
        return type(e)

    # -- model -> concrete inputs --------------------------------------------------------------------
    def concrete_inputs(self, model):
        out = {}
        for name, (kind, v) in self.vars.items():
            if kind == "str":
                out[name] = v.model_str(model) if isinstance(v, SymStr) else v
            elif kind == "int":
                out[name] = model_int(model, v)
            elif kind == "bool":
                out[name] = model_bool(model, v)
            elif kind == "choice":
                out[name] = v
            elif kind == "fork":
                out[name] = v
        return out

    def symbolic_env(self):
        env = {}
        for name, (kind, v) in self.vars.items():
            if kind == "str":
                env[name] = v
            elif kind == "int":
                env[name] = SymInt(v)
            elif kind == "bool":
                env[name] = SymBool(v)
            else:
                env[name] = v
        return env


def _z(t):
    if isinstance(t, bool):
        return z3.BoolVal(t)
    return t
