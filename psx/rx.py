"""Regular expressions as a bounded, position-indexed encoding of CPython's backtracking matcher.

The pattern is parsed with CPython's own re._parser and compiled to a Pike-style program
(char / split / jmp / save / bol / eol / eos / match).  For a bounded string (Atom):

  S[pc][i]  the VM started at (pc, i) reaches `match`                      (memoised term)
  V[pc][i]  the highest-priority successful run visits (pc, i)             (forward propagation)

`split(x, y)` prefers x, so V follows CPython's backtracking order exactly; greedy and lazy
repeats differ only in the order of the arms.  With concrete characters every term folds to a
Python bool, which is how the encoding is validated against `re` itself.
"""
import re
import re._parser as sp
import re._constants as sc

from .terms import And, Or, Not, If, Eq, Lt, Le, in_ranges, is_false
from . import sstr


class Unsupported(Exception):
    """The construct has no model in psx (engine limitation, never a verdict)."""


_CATS = {
    sc.CATEGORY_DIGIT: ("digit", False), sc.CATEGORY_NOT_DIGIT: ("digit", True),
    sc.CATEGORY_SPACE: ("space", False), sc.CATEGORY_NOT_SPACE: ("space", True),
    sc.CATEGORY_WORD: ("word", False), sc.CATEGORY_NOT_WORD: ("word", True),
}


class CharClass(object):
    """a predicate on a code point, hash-consed by its description"""
    _all = {}

    def __init__(self, key, fn):
        self.key = key
        self.fn = fn

    @classmethod
    def get(cls, key, fn):
        if key not in cls._all:
            cls._all[key] = CharClass(key, fn)
        return cls._all[key]

    def __call__(self, c, alpha=None):
        return self.fn(c, alpha)


def _cat_pred(cat):
    m = _CATS
    if cat not in m:
        raise Unsupported("regex category %s" % cat)
    name, neg = m[cat]

    def pred(c, alpha=None):
        rs, all_ = sstr.restrict_ranges(sstr.table(name), alpha)
        if all_:
            return not neg
        r = in_ranges(c, rs) if rs else False
        return Not(r) if neg else r
    return pred


def _cat_pred_old(cat):
    m = {
        sc.CATEGORY_DIGIT: ("digit", False), sc.CATEGORY_NOT_DIGIT: ("digit", True),
        sc.CATEGORY_SPACE: ("space", False), sc.CATEGORY_NOT_SPACE: ("space", True),
        sc.CATEGORY_WORD: ("word", False), sc.CATEGORY_NOT_WORD: ("word", True),
    }
    if cat not in m:
        raise Unsupported("regex category %s" % cat)
    name, neg = m[cat]
    if neg:
        return lambda c: Not(in_ranges(c, sstr.table(name)))
    return lambda c: in_ranges(c, sstr.table(name))


def class_of(node):
    op, arg = node
    if op is sp.LITERAL:
        return CharClass.get(("lit", arg), lambda c, al=None: Eq(c, arg))
    if op is sp.NOT_LITERAL:
        return CharClass.get(("nlit", arg), lambda c, al=None: Not(Eq(c, arg)))
    if op is sp.ANY:
        return CharClass.get(("any",), lambda c, al=None: Not(Eq(c, 10)))
    if op is sp.IN:
        neg = False
        preds = []
        key = []
        for o, a in arg:
            if o is sp.NEGATE:
                neg = True
                key.append("^")
            elif o is sp.LITERAL:
                preds.append((lambda a: lambda c, al=None: Eq(c, a))(a))
                key.append(("l", a))
            elif o is sp.RANGE:
                preds.append((lambda a: lambda c, al=None: And(Le(a[0], c), Le(c, a[1])))(a))
                key.append(("r", a))
            elif o is sp.CATEGORY:
                preds.append(_cat_pred(a))
                key.append(("c", str(a)))
            else:
                raise Unsupported("regex class item %s" % (o,))
        if neg:
            return CharClass.get(("in", tuple(key)), lambda c, al=None: Not(Or(*[p(c, al) for p in preds])))
        return CharClass.get(("in", tuple(key)), lambda c, al=None: Or(*[p(c, al) for p in preds]))
    return None


ANYALL = CharClass.get(("anyall",), lambda c, al=None: True)


class Program(object):
    def __init__(self, pattern, flags=0, search=False):
        if isinstance(pattern, bytes):
            raise Unsupported("bytes pattern")
        if flags & ~re.UNICODE:
            raise Unsupported("regex flags %r" % flags)
        self.pattern = pattern
        self.prog = []
        try:
            tree = sp.parse(pattern, flags)
        except re.error:
            raise
        if tree.state.flags & ~(re.UNICODE):
            raise Unsupported("inline regex flags")
        self.groups = tree.state.groups - 1
        self.groupindex = dict(tree.state.groupdict)
        self.mandatory = set()      # groups that are set on every successful match
        self.search = search
        if search:
            # re.search: the leftmost start at which the pattern matches = a lazy any-character prefix
            sp0 = self._emit("split", None, None)
            body = len(self.prog)
            self._emit("char", ANYALL)
            self._emit("jmp", sp0)
            self.prog[sp0][1], self.prog[sp0][2] = len(self.prog), body
            self._emit("save", 0)
        self._comp(tree, True)
        self._emit("match")
        self.order = self._eps_order()

    def _emit(self, *ins):
        self.prog.append(list(ins))
        return len(self.prog) - 1

    def _comp(self, seq, mand=False):
        prog = self.prog
        for node in seq:
            op, arg = node
            cc = class_of(node)
            if cc is not None:
                self._emit("char", cc)
            elif op is sp.AT:
                m = {sc.AT_BEGINNING: "bol", sc.AT_BEGINNING_STRING: "bol", sc.AT_END: "eol", sc.AT_END_STRING: "eos"}
                if arg not in m:
                    raise Unsupported("regex anchor %s" % arg)
                self._emit(m[arg])
            elif op is sp.SUBPATTERN:
                g, add_flags, del_flags, p = arg
                if add_flags or del_flags:
                    raise Unsupported("scoped regex flags")
                if g is not None:
                    self._emit("save", 2 * g)
                    if mand:
                        self.mandatory.add(g)
                self._comp(p, mand)
                if g is not None:
                    self._emit("save", 2 * g + 1)
            elif op is sp.BRANCH:
                alts = arg[1]
                jumps = []
                for k, a in enumerate(alts):
                    if k < len(alts) - 1:
                        s = self._emit("split", None, None)
                        prog[s][1] = len(prog)
                        self._comp(a)
                        jumps.append(self._emit("jmp", None))
                        prog[s][2] = len(prog)
                    else:
                        self._comp(a)
                for j in jumps:
                    prog[j][1] = len(prog)
            elif op in (sp.MAX_REPEAT, sp.MIN_REPEAT):
                lo, hi, sub = arg
                greedy = op is sp.MAX_REPEAT
                if lo > 256 or (hi is not sp.MAXREPEAT and hi > 256):
                    raise Unsupported("regex repeat count > 256")
                for _ in range(lo):
                    self._comp(sub, mand)
                if hi is sp.MAXREPEAT:
                    s = self._emit("split", None, None)
                    body = len(prog)
                    self._comp(sub)
                    self._emit("jmp", s)
                    exit_ = len(prog)
                    prog[s][1], prog[s][2] = (body, exit_) if greedy else (exit_, body)
                else:
                    splits = []
                    for _ in range(hi - lo):
                        s = self._emit("split", None, None)
                        splits.append((s, len(prog)))
                        self._comp(sub)
                    for s, body in splits:
                        prog[s][1], prog[s][2] = (body, len(prog)) if greedy else (len(prog), body)
            else:
                raise Unsupported("regex construct %s" % (op,))

    def eps_succ(self, pc):
        ins = self.prog[pc]
        if ins[0] in ("bol", "eol", "eos", "save"):
            return [pc + 1]
        if ins[0] == "jmp":
            return [ins[1]]
        if ins[0] == "split":
            return [ins[1], ins[2]]
        return []

    def _eps_order(self):
        P = len(self.prog)
        indeg = [0] * P
        for pc in range(P):
            for t in self.eps_succ(pc):
                indeg[t] += 1
        order = []
        ready = [pc for pc in range(P) if indeg[pc] == 0]
        while ready:
            pc = ready.pop()
            order.append(pc)
            for t in self.eps_succ(pc):
                indeg[t] -= 1
                if indeg[t] == 0:
                    ready.append(t)
        if len(order) != P:
            raise Unsupported("regex loop whose body can match the empty string: %r" % self.pattern)
        return order


_PROGS = {}


def program(pattern, flags=0, search=False):
    k = (pattern, flags, search)
    if k not in _PROGS:
        _PROGS[k] = Program(pattern, flags, search)
    return _PROGS[k]


class Enc(object):
    """encoding of one match attempt (anchored at position 0, like Pattern.match) on one Atom"""

    def __init__(self, prog, atom, full=False):
        self.P = prog
        self.prog = prog.prog
        self.a = atom
        self.N = atom.m
        self.L = atom.n
        self.c = atom.c
        self.full = full
        self.S = {}
        self.V = None
        self._cls = {}

    def cls(self, cc, i):
        k = (cc.key, i)
        if k not in self._cls:
            self._cls[k] = cc(self.c[i], self.a.alpha)
        return self._cls[k]

    def succ(self, pc, i):
        k = (pc, i)
        r = self.S.get(k)
        if r is not None:
            return r
        ins = self.prog[pc]
        op = ins[0]
        N = self.N
        if op == "match":
            r = Eq(self.L, i) if self.full else True
        elif op == "char":
            r = And(Lt(i, self.L), self.cls(ins[1], i), self.succ(pc + 1, i + 1)) if i < N else False
        elif op == "bol":
            r = self.succ(pc + 1, i) if i == 0 else False
        elif op == "eos":
            r = And(Eq(self.L, i), self.succ(pc + 1, i))
        elif op == "eol":
            atend = Eq(self.L, i)
            if i < N:
                atend = Or(atend, And(Eq(self.L, i + 1), Eq(self.c[i], 10)))
            r = And(atend, self.succ(pc + 1, i))
        elif op == "save":
            r = self.succ(pc + 1, i)
        elif op == "jmp":
            r = self.succ(ins[1], i)
        elif op == "split":
            r = Or(self.succ(ins[1], i), self.succ(ins[2], i))
        self.S[k] = r
        return r

    def matched(self):
        return self.succ(0, 0)

    def visits(self):
        if self.V is not None:
            return self.V
        P, N = len(self.prog), self.N
        inc = [[[] for _ in range(N + 2)] for _ in range(P)]
        inc[0][0].append(True)
        res = [[False] * (N + 2) for _ in range(P)]
        for i in range(N + 1):
            for pc in self.P.order:
                v = Or(*inc[pc][i]) if inc[pc][i] else False
                res[pc][i] = v
                if is_false(v):
                    continue
                ins = self.prog[pc]
                op = ins[0]
                if op == "char":
                    if i < N:
                        inc[pc + 1][i + 1].append(And(v, Lt(i, self.L), self.cls(ins[1], i)))
                elif op in ("bol", "eol", "eos", "save"):
                    inc[pc + 1][i].append(v)
                elif op == "jmp":
                    inc[ins[1]][i].append(v)
                elif op == "split":
                    a = self.succ(ins[1], i)
                    inc[ins[1]][i].append(And(v, a))
                    inc[ins[2]][i].append(And(v, Not(a)))
        self.V = res
        return res

    def _slot(self, slot):
        V = self.visits()
        pcs = [pc for pc, ins in enumerate(self.prog) if ins[0] == "save" and ins[1] == slot]
        present = Or(*[V[pc][i] for pc in pcs for i in range(self.N + 1)])
        val = -1
        for i in range(self.N + 1):
            for pc in pcs:
                val = If(V[pc][i], i, val)
        return present, val

    def group(self, g):
        """(present, start, end) of group g (g >= 1)"""
        _, s = self._slot(2 * g)
        p, e = self._slot(2 * g + 1)
        return p, s, e

    def start(self):
        """start of the whole match (0 for match(), the leftmost matching position for search())"""
        if not self.P.search:
            return 0
        return self._slot(0)[1]

    def end(self):
        V = self.visits()
        pc = len(self.prog) - 1
        val = -1
        for i in range(self.N + 1):
            val = If(V[pc][i], i, val)
        return val


def check_against_re(pattern, text, maxlen=None):
    """concrete instantiation of the encoding vs. CPython re; raises AssertionError on disagreement"""
    prog = program(pattern)
    cre = re.compile(pattern)
    a = sstr.Atom.lit(text)
    if maxlen and maxlen > len(text):
        a = sstr.Atom([ord(x) for x in text] + [0] * (maxlen - len(text)), len(text))
    enc = Enc(prog, a)
    ok = enc.matched()
    m = cre.match(text)
    assert ok == (m is not None), ("match", pattern, text, ok, m)
    if m is not None:
        for g in range(1, cre.groups + 1):
            p, s, e = enc.group(g)
            if m.group(g) is None:
                assert p is False, ("group absent", pattern, text, g, p)
            else:
                assert p is True and (s, e) == m.span(g), ("span", pattern, text, g, s, e, m.span(g))
        assert enc.end() == m.end(), ("end", pattern, text, enc.end(), m.end())
    # re.search
    progs = program(pattern, 0, True)
    encs = Enc(progs, a)
    ms = cre.search(text)
    assert encs.matched() == (ms is not None), ("search", pattern, text, encs.matched(), ms)
    if ms is not None:
        assert (encs.start(), encs.end()) == ms.span(), ("search span", pattern, text, encs.start(), encs.end(), ms.span())
        for g in range(1, cre.groups + 1):
            p, s_, e = encs.group(g)
            if ms.group(g) is None:
                assert p is False, ("search group absent", pattern, text, g)
            else:
                assert p is True and (s_, e) == ms.span(g), ("search group", pattern, text, g, s_, e, ms.span(g))
    return m is not None
