"""value-dependent numeric operations (C19): numbers read from symbolic text whose *magnitude* decides the running time

Only active when the harness switched it on (sym.approximate_numerics()): the *values* these models return are opaque (fresh
integers, opaque floats), which is enough for cost obligations and wrong for anything that compares values - every other harness
keeps ending such a path as unsupported.

What is modelled exactly is (a) which strings float() / Decimal() accept (the grammar in pynum.py, decided by the regex VM on the
symbolic text), (b) the decimal exponent the text denotes (linear integer arithmetic), and (c) a *lower bound* of what CPython then
spends, in units of 50 microseconds of CPU time (the native replay measures exactly that):

    int(Decimal) / Decimal.to_integral*/ quantize to an integer with adjusted exponent e:  max(0, (e - 50000) / 8)   [measured: 1250 at 6e4, 6700 at 1e5, 26000 at 2e5]
    b ** e, |b| >= 10:                                                                       max(0, (e - 300000) / 150) [measured: 5800 at 1e6, 29000 at 3e6]
    b ** e, 2 <= |b| < 10:                                                                   max(0, (e - 1000000) / 20000)
    sequence * n:                                                                            n * len / 200000             [1040 for 1e8 characters]

A lower bound keeps the alarm side sound: a witness the solver finds costs at least that much on the real interpreter."""
import decimal
import z3

from . import pynum
from .models import func_model, engine_type, FUNC_MODELS
from .values import SymInt, SymFloat, SymBool, SYM, mkint, iterm
from .sstr import SymStr
from .terms import Ne

def _fresh(prefix):
    from . import sstr
    return z3.Int(sstr.fresh_name(prefix))          # numbered per path (deterministic across re-executions)


def enabled(I):
    return bool(I.options.get("approximate_numerics"))


def charge(I, term, what):
    """add `term` (z3 Int or int, >= 0) units to the path's value-dependent cost"""
    I.charges.append((term, what))


def _pw(e, knee, div):
    """max(0, (e - knee) / div) as a z3 term"""
    if isinstance(e, int):
        return max(0, (e - knee) // div)
    return z3.If(e > knee, (e - knee) / div, 0)


@engine_type
class OpaqueFloat(object):
    """a float read from symbolic text: kind 'finite' (value unknown), 'inf' or 'nan'"""

    def __init__(self, kind):
        self.kind = kind

    def psx_symbolic(self):
        return True

    def is_integer(self):
        from .interp import current
        I = current()
        if self.kind != "finite":
            return False
        return bool(I.choose(2))

    def __repr__(self):
        return "<OpaqueFloat %s>" % self.kind


@engine_type
class OpaqueDecimal(object):
    """a Decimal read from symbolic text: kind 'finite' with adjusted exponent term `exp` (value = coefficient * 10**exp), 'inf', 'nan'"""

    def __init__(self, kind, exp=0, ndigits=1):
        self.kind = kind
        self.exp = exp
        self.ndigits = ndigits

    def psx_symbolic(self):
        return True

    def is_finite(self):
        return self.kind == "finite"

    def is_nan(self):
        return self.kind == "nan"

    def is_infinite(self):
        return self.kind == "inf"

    def _to_int(self, what):
        from .interp import current
        I = current()
        if self.kind == "nan":
            I.raise_(ValueError("cannot convert NaN to integer"))
        if self.kind == "inf":
            I.raise_(OverflowError("cannot convert Infinity to integer"))
        charge(I, _pw(self.exp, 50000, 8), what)
        return SymInt(_fresh("dec2int"))

    def __int__(self):
        return self._to_int("int(Decimal) materialises max(0, exponent) digits")

    __trunc__ = __int__

    def to_integral_value(self, *a, **k):
        self._to_int("Decimal.to_integral_value materialises max(0, exponent) digits")
        return self

    to_integral = to_integral_exact = to_integral_value

    def __repr__(self):
        return "<OpaqueDecimal %s>" % self.kind


def read_number(I, s):
    """run the reference reading on the symbolic string (forks over accepted / special / rejected)"""
    I.allow_stdlib(pynum.parse_number)
    a = s.flat() if hasattr(s, "flat") else None
    if a is not None:
        I.cut(a.char_pred_all(lambda c: Ne(c, 95)), "numeric literals without digit-group underscores")
    return I.call(pynum.parse_number, [s], {})


def float_of_text(I, s):
    r = read_number(I, s)
    if r is None:
        I.raise_(ValueError("could not convert string to float"))
    if isinstance(r, str):
        return OpaqueFloat(r)
    return OpaqueFloat("finite")


def int_of_opaque_float(I, v):
    if v.kind == "nan":
        I.raise_(ValueError("cannot convert float NaN to integer"))
    if v.kind == "inf":
        I.raise_(OverflowError("cannot convert float infinity to integer"))
    return SymInt(_fresh("float2int"))          # at most 309 digits: no value-dependent cost worth charging


@func_model(decimal.Decimal)
def _decimal(I, args, kwargs):
    if not enabled(I) or len(args) != 1 or kwargs or not isinstance(args[0], SymStr):
        return NotImplemented
    r = read_number(I, args[0])
    if r is None:
        I.raise_(decimal.InvalidOperation([decimal.ConversionSyntax]))
    if isinstance(r, str):
        return OpaqueDecimal(r)
    i, f, exp = r
    lf = I.models._len(I, [f], {}) if not isinstance(f, str) else len(f)
    li = I.models._len(I, [i], {}) if not isinstance(i, str) else len(i)
    e = iterm(exp) - iterm(lf)
    # the adjusted exponent counts from the last coefficient digit: digits before the point add to what int() has to write out
    return OpaqueDecimal("finite", e, iterm(li) + iterm(lf))


def pow_charge(I, base, e):
    """b ** e with a symbolic exponent: opaque result, charged by the size of the result"""
    I.cut(e >= 0, "powers with a non-negative exponent (a negative one yields a float)")
    if isinstance(base, int):
        b = abs(base)
        if b >= 10:
            charge(I, _pw(e, 300000, 150), "%d ** n writes ~n digits" % base)
        elif b >= 2:
            charge(I, _pw(e, 1000000, 20000), "%d ** n writes ~n bits" % base)
    else:
        charge(I, _pw(e, 300000, 150), "b ** n writes ~n digits")
    return SymInt(_fresh("pow"))


def repeat_charge(I, length, n):
    if isinstance(length, int) and length == 0:
        return
    charge(I, (n * length) / 200000 if not isinstance(n, int) or not isinstance(length, int) else (n * length) // 200000,
           "sequence repeated n times")
