"""reference reading of a decimal literal, in plain Python: interpreted by psx on symbolic strings (psx/numerics.py)

The grammar is the common core of float(str) and decimal.Decimal(str): optional sign, digits with an optional fraction or a fraction
alone, an optional exponent; 'inf' / 'infinity' / 'nan' in any case.  Surrounding white space is stripped.  Outside this reading
(cut by a reported assumption in numerics.py): digit-group underscores, Decimal's 'snan' and NaN payloads."""
import re

NUMBER = re.compile(r"^[-+]?(?:(?P<i>\d+)(?:\.(?P<f>\d*))?|\.(?P<g>\d+))(?:[eE](?P<e>[-+]?\d+))?$")
SPECIAL = re.compile(r"^[-+]?(?:[iI][nN][fF](?:[iI][nN][iI][tT][yY])?|[nN][aA][nN])$")


def parse_number(s):
    """None: not a number; "inf" / "nan"; or (digits before the point, digits after it, exponent as int)"""
    s = s.strip()
    m = NUMBER.match(s)
    if m is None:
        if SPECIAL.match(s) is None:
            return None
        if s.endswith("n") or s.endswith("N"):
            return "nan"
        return "inf"
    e = m.group("e")
    exp = 0
    if e is not None:
        exp = int(e)
    i = m.group("i")
    f = m.group("f")
    if i is None:
        i = ""
        f = m.group("g")
    if f is None:
        f = ""
    return (i, f, exp)
